"""Printer from abstract flattened-struct inputs (spec/O2OFlatten.tla) to Rust programs using the real #[derive(o2o)].
The counterpart is a tree of named structs D / DX (DX = D plus one leaf `extra` in every node that no instruction mentions)."""


def tyname(prefix, p):
    return prefix + "_" + "_".join(p) if p else prefix


class FlatCase:
    def __init__(self, ci, c):
        self.ci, self.c = ci, c
        self.ms = c["ms"]
        self.gs = c.get("gs", [])
        self.n = len(self.ms)
        self.paths = [tuple(m["path"]) for m in self.ms]
        nodes = set()
        for p in self.paths + [tuple(g["path"]) for g in self.gs]:
            for k in range(1, len(p) + 1):
                nodes.add(p[:k])
        self.nodes = sorted(nodes)
        self.tn = ("ab", "e") if c.get("tn") else None          # this node is a tuple struct (`ab.e: T as ()`)

    def cm(self, i):
        if self.tn and self.paths[i - 1] == self.tn:
            return str(sum(1 for j in range(1, i) if self.paths[j - 1] == self.tn))
        return f"r{i}" if self.ms[i - 1]["it"] == "ren" else f"s{i}"

    def xleaf(self, p):
        """name of the leaf of DX's node p that no instruction mentions"""
        return str(len(self.leaves(p))) if p == self.tn else "extra"

    def children(self, p):
        return [q for q in self.nodes if len(q) == len(p) + 1 and q[:len(p)] == p]

    def leaves(self, p):
        return [self.cm(i) for i in range(1, self.n + 1) if self.paths[i - 1] == p] + \
               [f"g{j}" for j, g in enumerate(self.gs, 1) if tuple(g["path"]) == p]

    def all_leaves(self, extra):
        out = []
        for p in [()] + self.nodes:
            for l in self.leaves(p) + ([self.xleaf(p)] if extra else []):
                out.append(".".join(p + (l,)))
        return out

    def defs(self):
        out = ["#[derive(Clone)] pub struct ZZ {}"] if any(m["it"] == "cded" for m in self.ms) else []
        for pref, extra in (("D", False), ("DX", True)):
            for p in [()] + self.nodes:
                if p == self.tn:
                    out.append(f"#[derive(Clone)] pub struct {tyname(pref, p)}({' '.join('pub V,' for _ in range(len(self.leaves(p)) + (1 if extra else 0)))});")
                    continue
                fs = [f"pub {l}: V," for l in self.leaves(p)] + [f"pub {q[-1]}: {tyname(pref, q)}," for q in self.children(p)]
                if extra:
                    fs.append("pub extra: V,")
                out.append(f"#[derive(Clone)] pub struct {tyname(pref, p)} {{ {' '.join(fs)} }}")
        return out

    def lit(self, pref, atom, p=(), extra=False, poison=None):
        def a(l):
            full = ".".join(p + (l,))
            return f'mk("POISON.{full}")' if full == poison else f'mk("{atom}.{full}")'
        if p == self.tn:
            return f"{tyname(pref, p)}(" + ", ".join(a(l) for l in self.leaves(p) + ([self.xleaf(p)] if extra else [])) + ")"
        fs = [f"{l}: {a(l)}" for l in self.leaves(p)] + [f"{q[-1]}: {self.lit(pref, atom, q, extra, poison)}" for q in self.children(p)]
        if extra:
            fs.append(f'extra: {a("extra")}')
        return f"{tyname(pref, p)} {{ {', '.join(fs)} }}"

    def sdef(self, name, fallible):
        fields = []
        for i, m in enumerate(self.ms, 1):
            a = []
            if m["path"] and m["it"] == "cded":
                # default child path written first points to a node that does not exist; the dedicated ones are the ones that count
                a.append(f'#[child(zz)] #[child(D| {".".join(m["path"])})] #[child(DX| {".".join(m["path"])})]')
            elif m["path"]:
                a.append(f'#[child({".".join(m["path"])})]')
            call = f"chk({i}, ~)?" if fallible else f"tg({i}, ~)"
            if self.tn and tuple(m["path"]) == self.tn:
                a.append(f"#[map({self.cm(i)}, {call})]" if m["it"] == "expr" else f"#[map({self.cm(i)})]")
            elif m["it"] == "expr":
                a.append(f"#[map({call})]")
            elif m["it"] == "ren":
                a.append(f"#[map({self.cm(i)})]")
            fields.append(f'{" ".join(a)} pub s{i}: V,')
        hint = lambda q: " as ()" if q == self.tn else ""
        cps = ", ".join(f'{".".join(q)}: {tyname("D", q)}{hint(q)}' for q in self.nodes)
        cpsx = ", ".join(f'{".".join(q)}: {tyname("DX", q)}{hint(q)}' for q in self.nodes)
        if any(m["it"] == "cded" for m in self.ms):
            cps, cpsx = cps + ", zz: ZZ", cpsx + ", zz: ZZ"      # the shadowed default path must still be a declared one (validation looks at every #[child])
        # a default #[child_parents] naming types that do not exist is written FIRST: the dedicated ones are the ones that count (C05's rule)
        dflt = ", ".join(f'{".".join(q)}: Nowhere' for q in self.nodes)
        cp_attr = f"#[child_parents({dflt})] #[child_parents(D| {cps})] #[child_parents(DX| {cpsx})]" if self.nodes else ""
        gh = ""
        if self.gs:
            gh = "#[ghosts(" + ", ".join(f'{".".join(g["path"])}@g{j}: {{gx({j})}}' for j, g in enumerate(self.gs, 1)) + ")]"
        m, ie, er = ("try_map", "try_into_existing", ", Er") if fallible else ("map", "into_existing", "")
        return f"#[derive(Clone, o2o)] #[{m}(D{er})] #[{ie}(DX{er})] {cp_attr} {gh} pub struct {name} {{ {' '.join(fields)} }}"

    def program(self):
        ci = self.ci
        sl = [f"s{i}" for i in range(1, self.n + 1)]
        dl, dxl = self.all_leaves(False), self.all_leaves(True)
        lv = lambda var, names: ", ".join(f'("{l}", {var}.{l}.sh())' for l in names)

        def slit(name, poison=None):
            return f"{name} {{ " + ", ".join((f'{l}: mk("POISON.{l}")' if l == poison else f'{l}: mk("S.{l}")') for l in sl) + " }"
        sites = [i for i, m in enumerate(self.ms, 1) if m["it"] == "expr"]
        run = []
        for name, fall in (("S", False), ("Sf", True)):
            f = "true" if fall else "false"
            vecs = [("clean", None, None)]
            if fall:
                vecs += [(f"poison{i}", f"s{i}", ".".join(self.paths[i - 1] + (self.cm(i),))) for i in sites]
            for vec, ps, pd in vecs:
                dlit = self.lit("D", "D", (), False, pd)
                dxlit = self.lit("DX", "P", (), True)
                if fall:
                    def emit(k, expr, leaves):
                        run.append(f'{{ match {expr} {{ Ok(x) => obs({ci},"{k}",{f},"{vec}","ok",0,vec![{lv("x", leaves)}]), Err(e) => obs({ci},"{k}",{f},"{vec}","err",e.0,vec![]) }} }}')
                    emit("FO", f"<{name} as TryFrom<D>>::try_from({dlit})", sl)
                    emit("FR", f"<{name} as TryFrom<&D>>::try_from(&{dlit})", sl)
                    emit("OI", f"<{name} as TryInto<D>>::try_into({slit(name, ps)})", dl)
                    emit("RI", f"<&{name} as TryInto<D>>::try_into(&{slit(name, ps)})", dl)
                    for k, recv in (("OIE", "s0"), ("RIE", "(&s0)")):
                        run.append(f'{{ let mut x: DX = {dxlit}; let s0 = {slit(name, ps)}; match {recv}.try_into_existing(&mut x) {{ Ok(()) => obs({ci},"{k}",{f},"{vec}","ok",0,vec![{lv("x", dxl)}]), Err(e) => obs({ci},"{k}",{f},"{vec}","err",e.0,vec![{lv("x", dxl)}]) }} }}')
                else:
                    run.append(f'{{ let x = <{name} as From<D>>::from({dlit}); obs({ci},"FO",{f},"{vec}","ok",0,vec![{lv("x", sl)}]); }}')
                    run.append(f'{{ let x = <{name} as From<&D>>::from(&{dlit}); obs({ci},"FR",{f},"{vec}","ok",0,vec![{lv("x", sl)}]); }}')
                    run.append(f'{{ let x = <{name} as Into<D>>::into({slit(name)}); obs({ci},"OI",{f},"{vec}","ok",0,vec![{lv("x", dl)}]); }}')
                    run.append(f'{{ let x = <&{name} as Into<D>>::into(&{slit(name)}); obs({ci},"RI",{f},"{vec}","ok",0,vec![{lv("x", dl)}]); }}')
                    for k, recv in (("OIE", "s0"), ("RIE", "(&s0)")):
                        run.append(f'{{ let mut x: DX = {dxlit}; let s0 = {slit(name)}; {recv}.into_existing(&mut x); obs({ci},"{k}",{f},"{vec}","ok",0,vec![{lv("x", dxl)}]); }}')
        nl = "\n"
        return (f"pub mod c{ci} {{ use super::*;\n{nl.join(self.defs())}\n{self.sdef('S', False)}\n{self.sdef('Sf', True)}\n"
                f"pub fn run() {{\n  {(nl + '  ').join(run)}\n}} }}")

    def others(self):
        return [".".join(p + (self.xleaf(p),)) for p in [()] + self.nodes]
