"""C08, attribute parameters: every permutation of the keyword parameters (+ one tail) on every trait instruction name;
the position of each marker attribute in the real expansion is read back by syn and judged by Trace_C08."""
import core

MARK = {"at": "allow(unused_at)", "iat": "allow(unused_iat)", "nat": "allow(unused_nat)"}
KW = {"at": "attribute", "iat": "impl_attribute", "nat": "inner_attribute"}


def concretize(p):
    fall = "try_" in p["n"]
    ps = []
    for k in p["ps"]:
        ps.append("vars(vq: {mkv(@)})" if k == "vars" else f"{KW[k]}({MARK[k]})")
    tail = {"-": None, "upd": "..upd(@)", "ret": "return ret(@)", "dflt": "_ => dflt(@)"}[p["tail"]]
    if tail:
        ps.append(tail)
    params = (" | " + ", ".join(ps)) if ps else ""
    head = f'#[{p["n"]}(D{", Er" if fall else ""}{params})]'
    if p["dt"] == "enum" and p["tail"] == "ret":
        # a quick return replaces the whole body: member-level requirements (here: field names for a tuple variant hinted `as {}`) do not apply
        return head + " enum S { A, #[type_hint(as {})] B(V) }"
    if p.get("gh"):
        head += " #[ghosts(gq: {mkg()})]"
    return head + (" struct S { a: V }" if p["dt"] == "struct" else " enum S { A, #[literal(1)] B }" if p["tail"] == "dflt" else " enum S { A }")


def norm(s):
    return s.replace(" ", "")


def observe(run):
    o = {"verdict": run["verdict"], "impls": []}
    if run["verdict"] != "ok":
        return o
    if run["proj"]["parse"] != "ok":
        o["verdict"] = "unparseable"
        return o
    for im in run["proj"]["impls"]:
        rec = {"has_let": False}
        for k, mark in MARK.items():
            pos = []
            m = norm(mark)
            pos += ["impl"] * sum(1 for a in im["impl_attrs"] if m in norm(a))
            for f in im["fns"]:
                pos += ["fn"] * sum(1 for a in f["outer_attrs"] if m in norm(a))
                pos += ["inner"] * sum(1 for a in f["inner_attrs"] if m in norm(a))
                # anywhere else in the body text (neither an outer nor an inner attribute of the fn)
                extra = norm(f["body"]).count(m) - sum(1 for a in f["inner_attrs"] if m in norm(a))
                pos += ["body"] * max(0, extra)
            rec[k] = pos
        rec["has_let"] = any("letvq=" in norm(f["body"]) for f in im["fns"])
        o["impls"].append(rec)
    return o


def run(ctx, tier):
    r = core.tlc("MC_C08", "MC_C08", workers=4)
    if not r.ok:
        raise core.ToolError("MC_C08 failed:\n" + r.stdout[-2000:])
    ctx.add_tlc(r)
    cases = r.cases
    inp = [{"id": i, "src": concretize(p)} for i, p in enumerate(cases)]
    recs = core.project(core.expand(inp, "syn1"))
    trace = []
    for p, rr, i in zip(cases, recs, inp):
        o = observe(rr["runs"][0])
        o.update({"id": rr["id"], "p": p})
        trace.append(o)
    ok, mism, st = core.judge("Trace_C08", trace, tag="c08-attrs")
    ctx.add_tlc(st)
    for m in mism:
        ctx.violation(dict(m["cell"], stream="attr_params"), m["symptom"], {"src": inp[m["id"]]["src"], "report": m})
    ctx.cov["attr_cases"] = len(trace)
    ctx.cov["evaluations"] += len(trace)
    ctx.cov["traces_validated_against_impl"] += ok
    ctx.sample({"params": trace[len(trace) // 2]["p"], "src": inp[len(trace) // 2]["src"], "impls": trace[len(trace) // 2]["impls"][:1]})

    def corrupt(bad):
        for b in bad:
            for im in b["impls"]:
                if im["at"] == ["fn"]:
                    im["at"] = ["impl"]
                    return True
        return False
    core.canary(ctx, "C08 attrs (attribute reported on the impl instead of the fn)", "Trace_C08",
                [t for t in trace if any(im.get("at") == ["fn"] for im in t["impls"])], corrupt)
