"""Input streams and observation helpers shared by several checks.  Facts only, no expectations."""
import json
import re

import core


def norm(s):
    return re.sub(r"\s+", "", s or "")


_repo_cache = {}


def repo_inputs():
    """Every derive input that exists in the repository (o2o-tests, quote! fragments of o2o-impl/src/tests.rs,
    README and macro doc blocks), extracted by `proj extract` from the current working tree."""
    h = core.repo_hash()
    if h in _repo_cache:
        return _repo_cache[h]
    p = core.run([str(core.proj_bin()), "extract", str(core.REPO)], timeout=600)
    if p.returncode != 0:
        raise core.ToolError("proj extract failed: " + p.stderr[-2000:])
    recs = [json.loads(l) for l in p.stdout.splitlines() if l.strip()]
    _repo_cache[h] = recs
    return recs


def impl_headers(run, cpmap=None, errmap=None):
    """Project one accepted run (already passed through `proj`) to the header facts C04 speaks about.
    cpmap / errmap: id -> concrete type text, used only to translate observed type text back to the ids the
    abstract input used (unknown text stays as it is, so the judge sees it)."""
    inv_cp = {norm(v): k for k, v in (cpmap or {}).items()}
    inv_err = {norm(v): k for k, v in (errmap or {}).items()}
    out = []
    for im in run["proj"]["impls"]:
        tr = im["trait"].split("::")[-1].strip()
        isfrom = tr in ("From", "TryFrom")
        arg = im["trait_args"][0] if im["trait_args"] else ""
        if isfrom:
            byref = arg.strip().startswith("&")
            target = re.sub(r"^\s*&\s*('\w+\s*)?", "", arg)
        else:
            byref = im["self_ref"]
            target = arg
        err = [a["ty"] for a in im["assoc"] if a["name"] == "Error"]
        errn = norm(err[0]) if err else "-"
        out.append({"trait": tr, "path": im["trait"], "byref": bool(byref), "from": isfrom,
                    "cp": inv_cp.get(norm(target), norm(target)), "err": inv_err.get(errn, errn),
                    "method": im["fns"][0]["name"] if len(im["fns"]) == 1 else f"{len(im['fns'])}fns"})
    return out


# loose key phrases of today's diagnostics -> rule class of the property statement (DESIGN Appendix E)
CLASSES = [
    ("no_trait_instr", "At least one trait instruction"),
    ("dup_conv", "Ident here must be unique"),
    ("missing_err", "Error type should be specified"),
    ("superfluous_err", "should not be specified"),
    ("unknown_cp", "doesn't match any type"),
    ("second_default", "at most one default"),
    ("second_dedicated", "is already defined"),
    ("misplaced", "should be used on"),
    ("misplaced", "not applicable to enums"),
    ("misnamed", "Perhaps you meant"),
    ("unknown_instr", "is not supported."),
    ("unsupported_member", "not supported for this member"),
    ("ghost_no_default", "should provide default value"),
    ("child_no_parents", "Missing #[child_parents"),
    ("child_no_parents", "Missing '"),
    ("tuple_named_mismatch", "should have member trait instruction"),
    ("tuple_named_mismatch", "should specify corresponding field name"),
    ("tuple_named_mismatch", "that specifies corresponding field name"),
    ("untyped_parent", "should have type here"),
    ("repeat_conflict", "must be terminated"),
    ("repeat_conflict", "will be overriden"),
    ("repeat_conflict", "was already set"),
    ("repeat_conflict", "only applicable to enum variant fields"),
]


def classify(msgs):
    out = set()
    for m in msgs:
        for c, k in CLASSES:
            if k in m:
                out.add(c)
    return sorted(out)
