"""Printers for the exploration streams of C16/C17/C18/C19: token soup (MC_Soup) and arm coverage (MC_Arms)."""


def soup(s):
    arg = " ".join(s["toks"])
    a = f'#[o2o({s["name"]}({arg}))]' if s["own"] else f'#[{s["name"]}({arg})]'
    p = s["pos"]
    if p == "struct":
        return f"{a} #[map(D)] struct S {{ a: V, b: V }}"
    if p == "field":
        return f"#[map(D)] struct S {{ {a} a: V, b: V }}"
    if p == "tfield":
        return f"#[map(D)] struct S ( {a} V, V );"
    if p == "enum":
        return f"{a} #[map(D)] enum S {{ A, B(V) }}"
    if p == "variant":
        return f"#[map(D)] enum S {{ {a} A, B(V), C{{x: V}} }}"
    if p == "vfield":
        return f"#[map(D)] enum S {{ A, B({a} V), C{{ x: V}} }}"
    raise ValueError(p)


S_INSTR = {
    "map_name": lambda i: f"#[map(r{i})]", "map_expr": lambda i: "#[map(f([~.x()], {@.y}, (~)))]", "map_bare": lambda i: "#[map]", "map_idx": lambda i: "#[map(1)]",
    "try_into_name": lambda i: f"#[try_into(q{i})]", "ghost_d": lambda i: "#[ghost({gh()})]", "ghost_nd": lambda i: "#[ghost]", "parent0": lambda i: "#[parent]",
    "parentp": lambda i: "#[parent(a, [map(bb)] b)]", "parentp_idx": lambda i: "#[parent([into(~.x())] 0)]", "child": lambda i: "#[child(p)]",
    "as_type": lambda i: "#[o2o(as_type(i64))]", "repeat": lambda i: "#[o2o(repeat)]", "stop_repeat": lambda i: "#[o2o(stop_repeat)]",
    "skip_repeat": lambda i: "#[o2o(skip_repeat)]", "ghosts": lambda i: "#[ghosts(g: {1})]", "literal": lambda i: "#[literal(1)]",
}
V_INSTR = {
    "map_name": lambda i: f"#[map(R{i})]", "map_expr": lambda i: "#[map({f([~], (@))})]", "map_bare": lambda i: "#[map]", "literal": lambda i: f"#[literal({i})]",
    "pattern": lambda i: "#[pattern(7 | 8)]", "ghost_d": lambda i: "#[ghost({dv()})]", "ghost_nd": lambda i: "#[ghost]", "hint_s": lambda i: "#[type_hint(as {})]",
    "hint_t": lambda i: "#[type_hint(as ())]", "hint_u": lambda i: "#[type_hint(as Unit)]", "ghosts": lambda i: "#[ghosts(g: {1})]", "ghosts_idx": lambda i: "#[ghosts(0: {1})]",
    "as_type": lambda i: "#[o2o(as_type(i32))]", "child": lambda i: "#[child(p)]", "parent0": lambda i: "#[parent]", "repeat": lambda i: "#[o2o(repeat)]",
    "stop_repeat": lambda i: "#[o2o(stop_repeat)]",
}
F_INSTR = {
    "map_name": "#[map(x)]", "map_idx": "#[map(0)]", "map_expr": "#[map(g([~.x()], {~}))]", "ghost_d": "#[ghost({gh()})]", "ghost_nd": "#[ghost]", "child": "#[child(p)]",
    "parent0": "#[parent]", "parentp": "#[parent(a)]", "as_type": "#[o2o(as_type(i64))]", "repeat": "#[o2o(repeat(permeate()))]", "literal": "#[literal(1)]",
}
TEXTRA = {"-": "", "cp_named": "#[child_parents(p: P)]", "cp_unit": "#[child_parents(p: P as Unit)]", "cp_struct": "#[child_parents(p: P as {})]", "cp_generic": "#[child_parents(p: m::P::<i32>, p.q: Q::<u8> as ())]",
          "ghosts_path": "#[ghosts(p@x: {1})]", "ghosts_destruct": "#[ghosts(W{a}: {1})]", "ghosts_idx": "#[ghosts(0: {1})]"}
TPARAM = {"-": "", "ret": " | return ret(@)", "upd": " | ..upd([@][0])", "dflt": " | _ => dflt(@)", "vars": " | vars(v: {1})"}


def arms(a):
    fall = "try_" in a["tn"]
    hint = {"-": "", "struct": " as {}", "tuple": " as ()", "unit": " as Unit"}[a["hint"]]
    head = f'#[{a["tn"]}(D{hint}{", Er" if fall else ""}{TPARAM[a["tparam"]]})] {TEXTRA[a["textra"]]}'
    if a["dt"] == "struct":
        if a["shape"] == "unit":
            return f"{head} struct S;"
        fs = []
        for i, m in enumerate(a["ms"], 1):
            at = " ".join(S_INSTR[n](i) for n in m)
            fs.append(f"{at} s{i}: V," if a["shape"] == "named" else f"{at} V,")
        if a["shape"] == "named":
            return f"{head} struct S {{ {' '.join(fs)} }}"
        return f"{head} struct S ( {' '.join(fs)} );"
    vs = []
    for i, m in enumerate(a["ms"], 1):
        at = " ".join(V_INSTR[n](i) for n in m)
        if i == 1 and a["shape"] != "unit":
            fa = " ".join(F_INSTR[n] for n in a["fs"])
            payload = f"({fa} V, V)" if a["shape"] == "tuple" else f"{{ {fa} x: V, y: V }}"
        else:
            payload = ""
        vs.append(f"{at} V{i}{payload},")
    return f"{head} enum S {{ {' '.join(vs)} }}"
