"""Run-time engine: generated Rust programs that use the REAL proc-macro (#[derive(o2o)]) through rustc, execute every
conversion on symbolic values and print one ndjson observation per call.  The engine states no expectation."""
import json
import os
import re
import shutil
import sys
import time
from collections import defaultdict
from pathlib import Path

import core

RT = core.HARNESS / "rt"

PRELUDE = r'''#![allow(dead_code, unused, non_snake_case, non_camel_case_types, unreachable_patterns, unreachable_code, clippy::all)]
use o2o::o2o; use o2o::traits::{IntoExisting, TryIntoExisting};
use std::cell::RefCell;
thread_local!{ static TAB: RefCell<Vec<String>> = RefCell::new(vec![String::from("DEFAULT")]);
               static EVLOG: RefCell<Vec<(char, usize)>> = RefCell::new(vec![]); }
#[derive(Clone, Copy, PartialEq, Default, Debug)] pub struct V(pub usize);
#[derive(Debug, Clone, PartialEq)] pub struct Er(pub usize);
pub mod m { pub use super::Er as Er2; pub mod q { } }
pub fn mk(s: &str) -> V { TAB.with(|t| { let mut t=t.borrow_mut(); t.push(s.to_string()); V(t.len()-1) }) }
pub fn mkn(s: &str) -> i32 { mk(s).0 as i32 }
pub fn show(v: V) -> String { TAB.with(|t| t.borrow().get(v.0).cloned().unwrap_or_else(|| format!("?{}", v.0))) }
pub trait Leaf { fn sh(&self) -> String; }
impl Leaf for V { fn sh(&self) -> String { show(*self) } }
impl Leaf for &V { fn sh(&self) -> String { show(**self) } }
impl Leaf for i32 { fn sh(&self) -> String { show(V(*self as usize)) } }
impl Leaf for i64 { fn sh(&self) -> String { show(V(*self as usize)) } }
impl Leaf for &i32 { fn sh(&self) -> String { show(V(**self as usize)) } }
impl Leaf for &i64 { fn sh(&self) -> String { show(V(**self as usize)) } }
pub fn logev(c: char, k: usize) { EVLOG.with(|l| l.borrow_mut().push((c, k))); }
pub fn take_log() -> Vec<(char, usize)> { EVLOG.with(|l| std::mem::take(&mut *l.borrow_mut())) }
pub fn tg<T: Leaf>(k: usize, v: T) -> V { logev('m', k); mk(&format!("t{}({})", k, v.sh())) }
pub fn pair<A: Leaf, B: Leaf>(a: A, b: B) -> V { mk(&format!("p({},{})", a.sh(), b.sh())) }
pub fn gh(k: usize) -> V { mk(&format!("g{}()", k)) }
pub fn gx(k: usize) -> V { mk(&format!("gx{}()", k)) }
pub fn gy(k: usize) -> V { mk(&format!("gy{}()", k)) }
pub fn go(k: usize) -> V { mk(&format!("go{}()", k)) }
pub fn gr(k: usize) -> V { mk(&format!("gr{}()", k)) }
pub fn ev<T: Leaf>(k: usize, v: T) -> V { logev('v', k); mk(&format!("t{}({})", 100 + k, v.sh())) }
pub fn chk<T: Leaf>(k: usize, v: T) -> Result<V, Er> { if v.sh().starts_with("POISON") { Err(Er(k)) } else { Ok(tg(k, v)) } }
pub fn js(s: &str) -> String { let mut o = String::from("\""); for c in s.chars() { match c { '"' => o.push_str("\\\""), '\\' => o.push_str("\\\\"), c => o.push(c) } } o.push('"'); o }
pub fn obs(case: usize, conv: &str, fall: bool, vec: &str, res: &str, errn: usize, leaves: Vec<(&str, String)>) {
  let o: Vec<String> = leaves.iter().map(|(l,v)| format!("{{\"leaf\":{},\"val\":{}}}", js(l), js(v))).collect();
  let lg: Vec<String> = take_log().iter().map(|(c, k)| format!("[\"{}\",{}]", c, k)).collect();
  println!("{{\"case\":{},\"k\":\"{}\",\"f\":{},\"vec\":\"{}\",\"res\":\"{}\",\"errn\":{},\"obs\":[{}],\"evlog\":[{}]}}", case, conv, fall, vec, res, errn, o.join(","), lg.join(","));
}
'''


def _setup(extra_prelude=""):
    (RT / "src" / "bin").mkdir(parents=True, exist_ok=True)
    (RT / ".cargo").mkdir(exist_ok=True)
    lock = core.REPO / "Cargo.lock"
    if lock.exists() and not (RT / "Cargo.lock").exists():
        shutil.copy(lock, RT / "Cargo.lock")
    (RT / "Cargo.toml").write_text(
        '[package]\nname = "rt"\nversion = "0.0.0"\nedition = "2021"\n[workspace]\n[dependencies]\n'
        f'o2o = {{ path = "{core.REPO}" }}\n[profile.dev]\ndebug = false\nincremental = false\nopt-level = 0\n')
    (RT / ".cargo" / "config.toml").write_text('[net]\noffline = true\n[build]\ntarget-dir = "target"\n')
    for f in (RT / "src" / "bin").iterdir():
        f.unlink()


def prescreen(programs):
    recs = core.project([{"id": ci, "src": src} for ci, src in programs.items()], mode="items")
    inp = [{"id": r["id"], "srcs": r["items"]} for r in recs if r["items"]]
    if not inp:
        return {}
    bad = {}
    for r in core.project(core.expand(inp, "syn1")):
        for run in r["runs"]:
            if run["verdict"] == "ok" and run["proj"]["parse"] != "ok":
                bad.setdefault(r["id"], []).append("error: proc-macro derive produced unparsable tokens (expansion pre-screened in-process): " + str(run["proj"]["parse"])[:120])
    return bad


def build_and_run(programs, nshards=16, rounds=7, extra_prelude="", timeout=3000):
    """programs: dict case_id -> Rust source of `pub mod c<ID> { use super::*; … pub fn run() {…} }`.
    Returns (observations, compile_failures: {case_id: [rustc messages]}, stats)."""
    _setup()
    ids = sorted(programs)
    stats = {"build_s": 0.0, "rounds": 0}
    # rustc gives up on a crate at the first derive whose output does not parse, so such cases would be found one per shard and round:
    # expand every derive input of every program in-process first and set those cases aside (they are reported as compile failures)
    exclude = prescreen(programs)
    stats["prescreened_unparseable"] = len(exclude)
    obs = []
    prelude = PRELUDE + extra_prelude
    pl = prelude.count("\n") + 1
    for rnd in range(rounds):
        stats["rounds"] = rnd + 1
        live = [i for i in ids if i not in exclude]
        # at most ~1000 case modules per binary: rustc needs about 1.7 GB for that many, and 16 of them run at once
        nsh = max(1, min(nshards, (len(live) + 19) // 20), (len(live) + 999) // 1000)
        shards = [live[s::nsh] for s in range(nsh)]
        linemap = {}
        for f in (RT / "src" / "bin").iterdir():
            f.unlink()
        for si, sh in enumerate(shards):
            parts = [prelude]
            line = pl
            calls = []
            starts = []
            for ci in sh:
                src = programs[ci]
                starts.append((line + 1, ci))
                parts.append(src)
                line += src.count("\n") + 1
                calls.append(f"c{ci}::run();")
            parts.append("fn main(){ " + " ".join(calls) + " }")
            (RT / "src" / "bin" / f"s{si}.rs").write_text("\n".join(parts))
            linemap[si] = starts
        t = time.time()
        p = core.run("cargo build --offline --bins --keep-going --message-format=short 2>&1", cwd=RT, timeout=timeout)
        stats["build_s"] += time.time() - t
        (core.OUT / f"rt_round{rnd}.log").write_text(p.stdout[-400000:])
        errs = defaultdict(list)
        for l in p.stdout.splitlines():
            m = re.match(r"^src/bin/s(\d+)\.rs:(\d+):\d+: (error.*)", l)
            if m:
                si, ln, msg = int(m.group(1)), int(m.group(2)), m.group(3)
                cands = [(st, ci) for st, ci in linemap[si] if st <= ln]
                if cands:
                    errs[max(cands)[1]].append(msg)
                else:
                    raise core.ToolError("rustc error in the harness prelude: " + l)
        if not errs:
            if p.returncode != 0:
                raise core.ToolError("cargo build of generated programs failed without a mappable error:\n" + p.stdout[-3000:])
            break
        for ci, msgs in errs.items():
            exclude[ci] = sorted(set(m[:160] for m in msgs))
    else:
        raise core.ToolError(f"generated programs still fail to compile after {rounds} exclusion rounds")

    def runone(si):
        pr = core.run([str(RT / "target" / "debug" / f"s{si}")], timeout=600)
        out = []
        for l in pr.stdout.splitlines():
            if l.startswith("{"):
                out.append(json.loads(l))
        return si, pr.returncode, out, pr.stderr[-500:]
    from concurrent.futures import ThreadPoolExecutor
    with ThreadPoolExecutor(max_workers=core.NCPU) as ex:
        for si, rc, out, err in ex.map(runone, range(len(shards))):
            obs += out
            if rc != 0:
                # a panic inside generated conversions is data about the case that ran last; report as run-time failure
                stats.setdefault("runtime_failures", []).append({"shard": si, "rc": rc, "stderr": err, "last": out[-1]["case"] if out else None})
    stats["programs"] = len(ids)
    stats["compiled"] = len(ids) - len(exclude)
    return obs, exclude, stats


if __name__ == "__main__":
    if "--warm" in sys.argv:
        o, e, s = build_and_run({0: "pub mod c0 { use super::*; #[derive(o2o)] #[map(D)] pub struct S { pub a: V } pub struct D { pub a: V } "
                                    "pub fn run() { let d: D = S { a: mk(\"S.a\") }.into(); obs(0, \"OI\", false, \"clean\", \"ok\", 0, vec![(\"a\", d.a.sh())]); } }"})
        print("rt warm:", len(o), "observations", s)


def check_modules(name, prelude, mods, deps="std", timeout=3000, rounds=4):
    """`cargo check` of one generated library whose modules each hold one case (real proc-macro, rustc as judge).
    mods: list of (module_name, source).  Returns {module_name: [messages]} for the modules rustc rejects (all others type-check)."""
    d = core.HARNESS / name
    (d / "src").mkdir(parents=True, exist_ok=True)
    (d / ".cargo").mkdir(exist_ok=True)
    dep = (f'o2o-macros = {{ path = "{core.REPO}/o2o-macros" }}\no2o = {{ path = "{core.REPO}", default-features = false }}\n' if deps == "no_std"
           else f'o2o = {{ path = "{core.REPO}" }}\n')
    (d / "Cargo.toml").write_text(f'[package]\nname = "{name}"\nversion = "0.0.0"\nedition = "2021"\n[workspace]\n[lib]\n[dependencies]\n{dep}'
                                  '[profile.dev]\ndebug = false\nincremental = false\n')
    (d / ".cargo" / "config.toml").write_text('[net]\noffline = true\n[build]\ntarget-dir = "target"\n')
    if not (d / "Cargo.lock").exists():
        shutil.copy(core.REPO / "Cargo.lock", d / "Cargo.lock")
    failed = {}
    live = list(mods)
    for _ in range(rounds):
        parts = [prelude]
        line = prelude.count("\n") + 1
        starts = []
        for n, src in live:
            text = f"pub mod {n} {{ use super::*;\n{src}\n}}"
            starts.append((line + 1, n))
            parts.append(text)
            line += text.count("\n") + 1
        (d / "src" / "lib.rs").write_text("\n".join(parts))
        p = core.run("cargo check --offline --message-format=short 2>&1", cwd=d, timeout=timeout)
        errs = defaultdict(list)
        for l in p.stdout.splitlines():
            m = re.match(r"^src/lib\.rs:(\d+):\d+: (error.*)", l)
            if m:
                ln, msg = int(m.group(1)), m.group(2)
                cands = [(st, n) for st, n in starts if st <= ln]
                if not cands:
                    raise core.ToolError("rustc error in the generated prelude: " + l)
                errs[max(cands)[1]].append(msg[:200])
        if not errs:
            if p.returncode != 0:
                raise core.ToolError("cargo check failed without a mappable error:\n" + p.stdout[-2000:])
            return failed
        failed.update(errs)
        live = [(n, s) for n, s in live if n not in failed]
    raise core.ToolError("generated library still fails after exclusion rounds")
