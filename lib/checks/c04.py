"""C04 -- each trait instruction yields exactly the documented impls (DESIGN 7/C04).

forward : TLC (MC_C04) enumerates instruction sequences and checks the table's theorems;
          every sequence is expanded by the real derive on a struct and on an enum; syn reads the impl headers back;
          TLC (Trace_C04) judges the bag of headers against ImplBag.
backward: every derive input of the repository, recorded through the hook (raw names + parsed kinds + impl events),
          judged by Trace_Repo_C04 (table on raw names; bag of headers; emission events)."""
import core
import streams

CPFORM = {"A": "A", "B": "B", "Q": "m::q::Q", "G": "G<u8, V>", "T": "(i32, V)", "QG": "m::q::H<u8, V>", "LL": "L<'x, 'x>"}
ERRFORM = {"E1": "Er", "E2": "m::Er2", "EG": "Eg<i32>", "EQG": "m::Eh<i32>"}
LEVEL = "model_checking"


def concretize(c, dt):
    attrs = []
    for t in c["ts"]:
        e = "" if t["err"] == "-" else ", " + ERRFORM[t["err"]]
        attrs.append(f'#[{t["n"]}({CPFORM[t["cp"]]}{e})]')
    body = "struct S { a: V }" if dt == "struct" else "enum S { A }"
    return " ".join(attrs) + " " + body


def observe(run, extra):
    o = {"verdict": run["verdict"], "impls": [], "classes": [], "dupgens": 0}
    if run["verdict"] == "err":
        o["classes"] = streams.classify(run["msgs"])
    elif run["verdict"] == "ok":
        if run["proj"]["parse"] != "ok":
            o["verdict"] = "unparseable"
        else:
            o["impls"] = streams.impl_headers(run, CPFORM, ERRFORM)
            # an impl whose parameter list names one parameter twice is not an impl the compiler accepts (E0403)
            o["dupgens"] = sum(1 for im in run["proj"]["impls"] if len({g["name"] for g in im["gens"]}) != len(im["gens"]))
    o.update(extra)
    return o


def forward(ctx, cfgs):
    cases = []
    for cfg in cfgs:
        r = core.tlc("MC_C04", cfg, workers=8, coverage=False)
        if not r.ok:
            raise core.ToolError(f"MC_C04/{cfg}: design-level theorem violated or TLC error:\n{r.stdout[-3000:]}")
        ctx.add_tlc(r)
        cases += r.cases
    seen = set()
    uniq = []
    for c in cases:
        k = core.json.dumps(c, sort_keys=True)
        if k not in seen:
            seen.add(k)
            uniq.append(c)
    cases = uniq
    # a bare-tuple counterpart is a struct-level notion (README "Tuple structs and tuples"): enums are not paired with it
    dts = lambda c: ("struct",) if any(t["cp"] == "T" for t in c["ts"]) else ("struct", "enum")
    inp = [{"id": i, "srcs": [concretize(c, dt) for dt in dts(c)]} for i, c in enumerate(cases)]
    recs = core.project(core.expand(inp, "syn1"))
    obs = []
    for c, r, i in zip(cases, recs, inp):
        for dt, runx, src in zip(dts(c), r["runs"], i["srcs"]):
            obs.append(observe(runx, {"id": f'{r["id"]}:{dt}', "dt": dt, "ts": c["ts"], "src": src}))
    trace = [{k: v for k, v in o.items() if k != "src"} for o in obs]
    ok, mism, st = core.judge("Trace_C04", trace, tag="c04-fwd")
    ctx.add_tlc(st)
    bysrc = {o["id"]: o["src"] for o in obs}
    for m in mism:
        cell = dict(m["cell"])
        cell["generic_err"] = "EG" in cell.pop("errs", [])
        ctx.violation(cell, m["symptom"], {"id": m["id"], "src": bysrc.get(m["id"]), "expected": m["expected"],
                                           "observed": m["observed"], "verdict": m["verdict"], "faults": m["faults"]})
    ctx.cov["evaluations"] += len(obs)
    ctx.cov["traces_validated_against_impl"] += ok
    ctx.cov["forward_inputs"] = len(cases)
    names = {t["n"] for c in cases for t in c["ts"]}
    ctx.cov["trait_names_exercised"] = len(names)
    for o in obs[1:4]:
        ctx.sample({"abstract": o["ts"], "dt": o["dt"], "src": o["src"], "verdict": o["verdict"], "impls": o["impls"][:2]})
    # distinct non-trivial = distinct (multiset of (name, cp, err), dt) with at least one instruction
    ctx.cov["distinct_nontrivial"] += len({(o["dt"], core.json.dumps(o["ts"], sort_keys=True)) for o in obs if o["ts"]})

    def corrupt(bad):
        for b in bad:
            if b["verdict"] == "ok" and b["impls"]:
                b["impls"][0]["byref"] = not b["impls"][0]["byref"]
                return True
        return False
    core.canary(ctx, "C04 forward (one header flipped owned/by-ref)", "Trace_C04", trace, corrupt)
    return trace


def backward(ctx):
    inputs = streams.repo_inputs()
    recs = core.project(core.expand([{"id": r["id"], "src": r["src"]} for r in inputs], "syn1", events=True))
    trace = []
    skipped = 0
    for inp, r in zip(inputs, recs):
        run = r["runs"][0]
        ev = run.get("events", [])
        parsed = [e for e in ev if e.get("ev") == "parsed"]
        if not parsed:
            skipped += 1     # parse-phase diagnostic before the linearisation point: nothing to judge here (C15/C16 do)
            continue
        d = parsed[0]
        names = [e["name"] for e in ev if e.get("ev") == "instr" and e["level"] == "type"]
        traits = [{"kinds": t["kinds"], "fallible": t["fallible"], "cp": streams.norm(t["cp"]), "err": streams.norm(t["err"])}
                  for t in d["traits"]]
        emitted = [{"k": e["kind"], "f": e["fallible"], "cp": streams.norm(e["cp"])} for e in ev if e.get("ev") == "impl"]
        verdict = run["verdict"]
        impls = []
        if verdict == "ok":
            if run["proj"]["parse"] != "ok":
                verdict = "unparseable"
            else:
                impls = [{k: v for k, v in h.items() if k in ("trait", "byref", "from", "cp", "err")}
                         for h in streams.impl_headers(run)]
        trace.append({"id": r["id"], "origin": inp["origin"], "dt": d["dt"], "names": names, "traits": traits, "verdict": verdict,
                      "impls": impls, "emitted": emitted})
    ok, mism, st = core.judge("Trace_Repo_C04", trace, tag="c04-bwd")
    ctx.add_tlc(st)
    bysrc = {r["id"]: r["src"] for r in inputs}
    for m in mism:
        ctx.violation({"stream": "repo", "dt": m.get("dt", "?")}, m["symptom"], {"id": m["id"], "origin": m.get("origin"), "src": bysrc.get(m["id"]), "detail": m})
    ctx.cov["evaluations"] += len(trace)
    ctx.cov["traces_validated_against_impl"] += ok
    ctx.cov["repo_inputs"] = len(inputs)
    ctx.cov["repo_runs_recorded"] = len(trace)
    ctx.cov["repo_runs_ended_before_dump"] = skipped
    ctx.cov["distinct_nontrivial"] += len({core.json.dumps([t["names"], t["traits"]], sort_keys=True) for t in trace})
    if trace:
        ctx.sample({"stream": "repo", "origin": trace[0]["origin"], "names": trace[0]["names"], "verdict": trace[0]["verdict"], "impls": trace[0]["impls"][:2]})

    def corrupt(bad):
        for b in bad:
            if b["traits"]:
                ks = b["traits"][0]["kinds"]
                b["traits"][0]["kinds"] = ks[1:] if len(ks) > 1 else ks + ["RIE" if "RIE" not in ks else "OI"]
                return True
        return False
    core.canary(ctx, "C04 backward (one dumped applicability set changed)", "Trace_Repo_C04", trace, corrupt)


def run(tier, seed):
    ctx = core.Ctx("C04", tier, seed, LEVEL)
    ctx.cov["rule"] = ("TLC enumerates every sequence of <= MaxLen trait instructions over the 24 names x counterparts "
                       "(x error types for fallible ones), each expanded on a struct and on an enum by the real derive; "
                       "plus every derive input of the repository recorded through the hook.  Distinct = distinct "
                       "(type kind, instruction sequence); non-trivial = at least one instruction.")
    ctx.assumptions += ["syn (2.x, feature full) reads impl headers back from the real token stream",
                        "type text is compared modulo whitespace"]
    forward(ctx, ["MC_C04_quick", "MC_C04_forms"] if tier == "quick" else ["MC_C04_thorough", "MC_C04_forms"])
    backward(ctx)
    ctx.cov["exhaustive"] = True
    return ctx.finish()
