"""The #[parent] stream (bare, parameterised, nested parents): shared by C03 (leaves), C07 (error propagation), C08 (vars in the post-init dialect)."""
import hashlib
import json

import core
import rt
from conc_parent import ParentCase
from checks import struct_stream as ss


def run_stream(ctx, tier):
    r = core.tlc("MC_Parent", "MC_Parent_q" if tier == "quick" else "MC_Parent_t", workers=8, timeout=1500)
    if not r.ok:
        raise core.ToolError("MC_Parent: " + r.stdout[-2000:])
    ctx.add_tlc(r)
    cases = r.cases
    key = (core.repo_hash(), ss.spec_hash(), hashlib.sha256(json.dumps(cases, sort_keys=True).encode()).hexdigest())
    cf = core.OUT / "cache" / f"parent-{'-'.join(key)[:60]}.json"
    cf.parent.mkdir(parents=True, exist_ok=True)
    if cf.exists():
        d = json.loads(cf.read_text())
        ctx.notes.append("parent stream: cache hit (same /repo sources, spec and harness)")
        return cases, d["obs"], {int(k): v for k, v in d["fail"].items()}, d["stats"]
    programs = {i: ParentCase(i, c).program() for i, c in enumerate(cases)}
    obs, fail, stats = rt.build_and_run(programs)
    cf.write_text(json.dumps({"obs": obs, "fail": fail, "stats": stats}))
    return cases, obs, fail, stats


def records(cases, obs, fail, props):
    recs = []
    for o in obs:
        c = cases[o["case"]]
        if o["vec"] == "clean":
            if "leaf" in props:
                recs.append(dict(o, prop="leaf", **{"in": c}))
            if "vars" in props and c["vars"]:
                recs.append(dict(o, prop="vars", **{"in": c}))
        elif "poison" in props:
            recs.append(dict(o, prop="poison", **{"in": c}))
    if "leaf" in props:
        for ci, msgs in fail.items():
            recs.append({"prop": "CF", "case": ci, "in": cases[ci], "errors": msgs[:4]})
    return recs


def judge_into(ctx, cases, recs, tag):
    ok, mism, st = core.judge("Trace_Parent", recs, tag=tag, timeout=1500)
    ctx.add_tlc(st)
    for m in mism:
        sym = m["symptom"]
        if sym == "does_not_compile":
            codes = sorted({e.split("]")[0].split("[")[-1] for e in m["errors"] if "error[" in e})
            sym = "does_not_compile:" + ",".join(codes)
        cell = dict(m["cell"], stream="parent")
        ctx.violation(cell, sym, {"case": m["case"], "input": cases[m["case"]], "report": m, "program": ParentCase(m["case"], cases[m["case"]]).program()[:6000]})
    return ok
