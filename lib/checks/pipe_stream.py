"""Pipeline trace validation (O2OPipe <- hook events): the inputs are the ones the Author actions of O2OPipe can build (TLC enumerates them),
the real derive runs on each with the hooks on, and TLC checks that the recorded event sequence of every run is a behaviour of O2OPipe
(spec/Trace_Pipe.tla), evaluating the pipeline's invariants in every recorded state."""
import re

import core
import streams
from checks import c14


def src(c):
    a = [f'#[{t["n"]}({t["cp"]}{", E1" if t["err"] != "-" else ""})]' for t in c["traits"]]
    n = len(c["rms"])
    if c["tattrs"]:
        a.append("#[child_parents(" + ", ".join(f"p{j}: P" for j in range(1, max(n, 1) + 1)) + ")]")
    fs = []
    for j, m in enumerate(c["rms"], 1):
        fs.append(" ".join(c14.m_attrs(m) + [c14.m_instr(x, j) for x in sorted(m["own"])]) + f" s{j}: V,")
    return " ".join(a) + " struct S { " + " ".join(fs) + " }"


def events(c, rid, run):
    out = [{"ev": "input", "id": rid, "in": c}]
    for e in run.get("events", []):
        k = e.get("ev")
        if k == "instr":
            out.append({"ev": "instr", "level": e["level"], "name": e["name"]})
        elif k == "member":
            m = re.fullmatch(r"s(\d+)", e["name"])
            out.append({"ev": "member", "j": int(m.group(1)) if m else 0})
        elif k == "parsed":
            out.append({"ev": "parsed", "merged": c14.m_merged(e), "traits": len(e["traits"])})
        elif k == "impl":
            out.append({"ev": "impl", "kind": e["kind"], "fallible": e["fallible"], "cp": e["cp"]})
    out.append({"ev": "end", "verdict": run["verdict"], "classes": streams.classify(run.get("msgs", []))})
    return out


def run_stream(ctx, tier, seed, cap=None):
    cases = streams.tlc_cases(ctx, "MC_Pipe", "MC_Pipe_q", cap, seed)
    # every documented trait instruction name (one instruction per input)
    cases = cases + streams.tlc_cases(ctx, "MC_Pipe", "MC_Pipe_n", (cap // 2) if cap else None, seed)
    if tier != "quick":
        # three members (one trait instruction): every placement of repeat / stop_repeat / skip_repeat over three members
        cases = cases + streams.tlc_cases(ctx, "MC_Pipe", "MC_Pipe_t", 150000, seed)
    inp = [{"id": i, "srcs": [src(c)]} for i, c in enumerate(cases)]
    res = core.expand(inp, "syn1", events=True)
    runs = [events(c, f"pipe:{i}", r["runs"][0]) for i, (c, r) in enumerate(zip(cases, res))]
    ok, mism, st = core.judge_runs("Trace_Pipe", runs, tag="pipe")
    ctx.add_tlc(st)
    byid = {f"pipe:{i}": i for i in range(len(cases))}
    return cases, inp, runs, ok, mism, byid
