"""C16 -- expansion never panics: every input yields impls or diagnostics (DESIGN 7/C16).
TLC-generated exploration streams (token soup, arm coverage, the unfiltered C15 stream) and the repository's inputs are expanded by the
real derive under catch_unwind in both parser back-ends; the pipeline machine's NeverPanics / Terminates are model-checked."""
import json
import random

import core
import streams
import conc_arms

LEVEL = "exploration"


_src_cache = {}


def site_text(site):
    """identity of a panic site that survives line shifts: file + the trimmed source text of the panicking line"""
    try:
        f, ln = site.rsplit(":", 1)
        if f not in _src_cache:
            _src_cache[f] = (core.REPO / "o2o-impl" / "src" / f).read_text().splitlines()
        return f + ": " + " ".join(_src_cache[f][int(ln) - 1].split())[:140]
    except Exception:
        return site


def run(tier, seed):
    ctx = core.Ctx("C16", tier, seed, LEVEL)
    quick = tier == "quick"
    srcs = streams.exploration_sources(ctx, tier, seed, which=("soup", "arms", "c15", "forms", "repo", "shapes"))
    inp = [{"id": i, "src": s[2]} for i, s in enumerate(srcs)]
    seen_sites = {}
    verdicts = {}
    for be in ("syn1", "syn2"):
        runs = core.expand(inp, be)
        for i, rr in enumerate(runs):
            r = rr["runs"][0]
            verdicts[r["verdict"]] = verdicts.get(r["verdict"], 0) + 1
            if r["verdict"] == "panic":
                site = site_text(r.get("site") or "?")
                ctx.violation({"site": site, "stream": srcs[i][0]}, "panic", {"backend": be, "stream": srcs[i][0], "src": srcs[i][2], "msg": r.get("msg", "")[:200], "abstract": srcs[i][1]})
                seen_sites.setdefault(site, 0)
                seen_sites[site] += 1
            elif r["verdict"] not in ("ok", "err", "input_parse_error"):
                raise core.ToolError(f"unexpected verdict {r['verdict']}")
    # the pipeline machine: NeverPanics + termination (liveness under weak fairness) on the design
    m = core.tlc("O2OPipe", "O2OPipe_safety_q" if quick else "O2OPipe_safety", workers=12, timeout=1500)
    ctx.add_tlc(m)
    if not m.ok:
        raise core.ToolError("pipeline machine safety run failed:\n" + m.stdout[-3000:])
    lv = core.tlc("O2OPipe", "O2OPipe_live", workers=4, timeout=1500)
    ctx.add_tlc(lv)
    if not lv.ok:
        raise core.ToolError("pipeline machine liveness run failed:\n" + lv.stdout[-3000:])
    ctx.cov["evaluations"] = 2 * len(inp)
    ctx.cov["verdicts"] = verdicts
    ctx.cov["panic_sites_seen"] = seen_sites
    ctx.cov["inputs_by_stream"] = {k: sum(1 for s in srcs if s[0] == k) for k in sorted({s[0] for s in srcs})}
    ctx.cov["distinct_nontrivial"] = len({s[2] for s in srcs if "#[" in s[2]})
    ctx.cov["rule"] = ("TLC-generated streams: token soup (every argument token sequence of <= MaxLen over a 24-token alphabet in every instruction "
                       "name at 6 positions), arm coverage (type kind x shape x hint x conversion kind x parameter x small sets of member / variant / "
                       "payload-field instructions), the unfiltered C15 stream, plus all repository inputs and degenerate shapes; each expanded by "
                       "the real derive under catch_unwind in both back-ends.  A panic's file:line is its identity.  distinct_nontrivial = distinct "
                       "source texts carrying at least one attribute.")
    ctx.cov["exhaustive"] = not quick
    for s in srcs[1000:1003]:
        ctx.sample({"stream": s[0], "abstract": s[1], "src": s[2]})
    return ctx.finish()
