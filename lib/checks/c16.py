"""C16 -- expansion never panics: every input yields impls or diagnostics (DESIGN 7/C16).
TLC-generated exploration streams (token soup, arm coverage, the unfiltered C15 stream) and the repository's inputs are expanded by the
real derive under catch_unwind in both parser back-ends; the pipeline machine's NeverPanics / Terminates are model-checked."""
import json
import random

import core
import streams
import conc_arms

LEVEL = "exploration"


_src_cache = {}


def site_text(site):
    """identity of a panic site that survives line shifts: file + the trimmed source text of the panicking line"""
    try:
        f, ln = site.rsplit(":", 1)
        if f not in _src_cache:
            _src_cache[f] = (core.REPO / "o2o-impl" / "src" / f).read_text().splitlines()
        return f + ": " + " ".join(_src_cache[f][int(ln) - 1].split())[:140]
    except Exception:
        return site


def run(tier, seed):
    ctx = core.Ctx("C16", tier, seed, LEVEL)
    quick = tier == "quick"
    srcs = streams.exploration_sources(ctx, tier, seed, which=("soup", "arms", "c15", "forms", "repo", "shapes"))
    inp = [{"id": i, "src": s[2]} for i, s in enumerate(srcs)]
    seen_sites = {}
    verdicts = {}
    for be in ("syn1", "syn2"):
        runs = core.expand(inp, be)
        for i, rr in enumerate(runs):
            r = rr["runs"][0]
            verdicts[r["verdict"]] = verdicts.get(r["verdict"], 0) + 1
            if r["verdict"] == "panic":
                site = site_text(r.get("site") or "?")
                ctx.violation({"site": site, "stream": srcs[i][0]}, "panic", {"backend": be, "stream": srcs[i][0], "src": srcs[i][2], "msg": r.get("msg", "")[:200], "abstract": srcs[i][1]})
                seen_sites.setdefault(site, 0)
                seen_sites[site] += 1
            elif r["verdict"] not in ("ok", "err", "input_parse_error"):
                raise core.ToolError(f"unexpected verdict {r['verdict']}")
    # the pipeline machine: NeverPanics + termination (liveness under weak fairness) on the design
    m = core.tlc("O2OPipe", "O2OPipe_safety_q" if quick else "O2OPipe_safety", workers=12, timeout=1500)
    ctx.add_tlc(m)
    if not m.ok:
        raise core.ToolError("pipeline machine safety run failed:\n" + m.stdout[-3000:])
    lv = core.tlc("O2OPipe", "O2OPipe_live", workers=4, timeout=1500)
    ctx.add_tlc(lv)
    if not lv.ok:
        raise core.ToolError("pipeline machine liveness run failed:\n" + lv.stdout[-3000:])
    # the pipeline machine bound to the code: the hook events of real runs must be behaviours of O2OPipe (spec/Trace_Pipe.tla), with the
    # machine's invariants (NeverPanics, FoldIsUnroll, ImplsAreDocumented, RejectedIffFaulty) evaluated in every recorded state
    from checks import pipe_stream
    import copy
    pcases, pinp, pruns, pok, pmism, pby = pipe_stream.run_stream(ctx, tier, seed, cap=20000 if quick else None)
    for mm in pmism:
        i = pby.get(mm["id"])
        verdict = pruns[i][-1]["verdict"] if i is not None else "?"
        ctx.violation({"stream": "pipe", "pc": mm["pc"], "event": mm["ev"]["ev"], "verdict": verdict},
                      "panic" if verdict == "panic" else "run_is_not_a_behaviour_of_the_pipeline_machine",
                      {"src": pinp[i]["srcs"][0] if i is not None else "?", "at": mm["at"], "event": mm["ev"], "machine": {k: mm[k] for k in ("pc", "mi", "cur", "k", "errors", "pending")},
                       "events": pruns[i][1:] if i is not None else []})
    ctx.cov["pipeline_runs_validated"] = len(pruns)
    ctx.cov["pipeline_runs_accepted"] = pok
    ctx.cov["pipeline_events"] = sum(len(r) for r in pruns)
    ctx.cov["traces_validated_against_impl"] = pok
    # canary: a run with one impl event dropped / one copied instruction dropped from the merged state must be rejected
    cand = [r for r in pruns if any(e["ev"] == "impl" for e in r) and any(e["ev"] == "parsed" and any(len(x) >= 2 for x in e["merged"]) for e in r)][:5]
    bad = []
    for n, r in enumerate(cand):
        a = copy.deepcopy(r); a[0]["id"] = f"canary-impl-{n}"; a.remove([e for e in a if e["ev"] == "impl"][0]); bad.append(a)
        b = copy.deepcopy(r); b[0]["id"] = f"canary-merged-{n}"
        pe = [e for e in b if e["ev"] == "parsed"][0]
        for j, x in enumerate(pe["merged"]):
            if len(x) >= 2:
                pe["merged"][j] = x[:-1]
                break
        bad.append(b)
    if bad:
        cok, cm, _ = core.judge_runs("Trace_Pipe", bad, tag="pipe-canary")
        if cok != 0:
            raise core.ToolError(f"canary: Trace_Pipe accepted {cok} of {len(bad)} corrupted runs (vacuous trace specification)")
        ctx.notes.append(f"canary: {len(bad)} corrupted pipeline runs (impl event dropped / merged instruction dropped) all rejected by Trace_Pipe")
    else:
        raise core.ToolError("canary: no pipeline run with an impl and a repeated instruction to corrupt")
    ctx.cov["evaluations"] = 2 * len(inp) + len(pruns)
    ctx.cov["verdicts"] = verdicts
    ctx.cov["panic_sites_seen"] = seen_sites
    ctx.cov["inputs_by_stream"] = {k: sum(1 for s in srcs if s[0] == k) for k in sorted({s[0] for s in srcs})}
    ctx.cov["distinct_nontrivial"] = len({s[2] for s in srcs if "#[" in s[2]})
    ctx.cov["rule"] = ("TLC-generated streams: token soup (every argument token sequence of <= MaxLen over a 24-token alphabet in every instruction "
                       "name at 6 positions), arm coverage (type kind x shape x hint x conversion kind x parameter x small sets of member / variant / "
                       "payload-field instructions), the unfiltered C15 stream, plus all repository inputs and degenerate shapes; each expanded by "
                       "the real derive under catch_unwind in both back-ends.  A panic's file:line is its identity.  distinct_nontrivial = distinct "
                       "source texts carrying at least one attribute.  "
                       "Pipeline trace validation: every input the Author actions of O2OPipe build (<= 2 trait instructions x <= 2 (quick) / 3 members with "
                       "map / child / repeat / stop_repeat / skip_repeat) is expanded with the hooks on and the recorded events (instr, member, parsed "
                       "state, impl, verdict + diagnostic classes) are replayed through O2OPipe's actions by TLC.")
    ctx.cov["exhaustive"] = not quick
    for s in srcs[1000:1003]:
        ctx.sample({"stream": s[0], "abstract": s[1], "src": s[2]})
    return ctx.finish()
