"""C03 -- flattened (child / parent) mappings are faithful; each nested struct is built once (DESIGN 7/C03)."""
import hashlib
import json

import core
import rt
from conc_flat import FlatCase
from checks import struct_stream as ss

LEVEL = "model_checking"


def observe(ctx, cases, tag):
    key = (core.repo_hash(), ss.spec_hash(), hashlib.sha256(json.dumps(cases, sort_keys=True).encode()).hexdigest())
    cf = core.OUT / "cache" / f"flat-{'-'.join(key)[:60]}.json"
    cf.parent.mkdir(parents=True, exist_ok=True)
    if cf.exists():
        d = json.loads(cf.read_text())
        ctx.notes.append(f"flatten stream {tag}: cache hit (same /repo sources, spec and harness)")
        return d["obs"], {int(k): v for k, v in d["fail"].items()}, d["stats"]
    programs = {i: FlatCase(i, c).program() for i, c in enumerate(cases)}
    obs, fail, stats = rt.build_and_run(programs)
    cf.write_text(json.dumps({"obs": obs, "fail": fail, "stats": stats}))
    return obs, fail, stats


def design_level(ctx):
    """TLC on the algorithm model alone: the grouping as implemented violates OnceEach (counterexample recorded),
    the repaired sort key satisfies OnceEach and AllLines for every member sequence in bounds."""
    r = core.tlc("MC_Group", "MC_Group_asis", workers=4)
    ctx.add_tlc(r)
    ctx.cov["design_asis_violates_OnceEach"] = "InvOnceEach" in r.invariant_violated
    r2 = core.tlc("MC_Group", "MC_Group_repaired", workers=8)
    ctx.add_tlc(r2)
    if not r2.ok:
        raise core.ToolError("MC_Group_repaired: the repaired grouping violates its invariants:\n" + r2.stdout[-2000:])
    ctx.cov["design_repaired_sequences_checked"] = r2.distinct


def run(tier, seed):
    ctx = core.Ctx("C03", tier, seed, LEVEL)
    design_level(ctx)
    cfgs = ["MC_C03_q1", "MC_C03_q2"] if tier == "quick" else ["MC_C03_t1", "MC_C03_t2", "MC_C03_t3"]
    cases = []
    for cfg in cfgs:
        r = core.tlc("MC_C03", cfg, workers=8)
        if not r.ok:
            raise core.ToolError(f"MC_C03/{cfg}: {r.stdout[-2000:]}")
        ctx.add_tlc(r)
        cases += r.cases
    seen, uniq = set(), []
    for c in cases:
        k = json.dumps(c, sort_keys=True)
        if k not in seen:
            seen.add(k)
            uniq.append(c)
    cases = uniq
    obs, fail, stats = observe(ctx, cases, "+".join(cfgs))
    recs = []
    strip = lambda c: {"ms": c["ms"], "gs": c["gs"], "tn": c.get("tn", False)}
    others = {i: FlatCase(i, c).others() for i, c in enumerate(cases)}
    for o in obs:
        r = dict(o)
        r["prop"] = "C03" if o["vec"] == "clean" else "C07p"
        r["in"] = strip(cases[o["case"]])
        r["others"] = others[o["case"]]
        recs.append(r)
    for ci, c in enumerate(cases):
        if ci in fail:
            recs.append({"prop": "CF", "case": ci, "in": strip(c), "errors": fail[ci][:4], "e0062": any("E0062" in m for m in fail[ci])})
        else:
            recs.append({"prop": "OK", "case": ci, "in": strip(c), "errors": []})
    ok, mism, st = core.judge("Trace_C03", recs, tag="c03")
    ctx.add_tlc(st)
    for m in mism:
        ctx.violation(dict(m["cell"]), m["symptom"], {"case": m["case"], "input": cases[m["case"]], "report": m,
                                                      "program": FlatCase(m["case"], cases[m["case"]]).program()[:6000]})
    # second stream: bare / parameterised / nested #[parent] members
    from checks import parent_stream as ps
    pcases, pobs, pfail, pstats = ps.run_stream(ctx, tier)
    precs = ps.records(pcases, pobs, pfail, {"leaf"})
    pok = ps.judge_into(ctx, pcases, precs, "c03-parent")
    ctx.cov["parent_stream_programs"] = len(pcases)
    ctx.cov["parent_stream_evaluations"] = len(precs)
    ctx.cov["evaluations"] = len(recs) + len(precs)
    ctx.cov["traces_validated_against_impl"] = ok + pok
    ctx.cov["programs"] = len(cases)
    ctx.cov["programs_compiled"] = stats.get("compiled")
    ctx.cov["model_predicted_double_construction"] = sum(1 for c in cases if c["dup"])
    ctx.cov["rustc_E0062"] = sum(1 for ci in fail if any("E0062" in m for m in fail[ci]))
    ctx.cov["distinct_nontrivial"] = len({(json.dumps(r["in"], sort_keys=True), r.get("k"), r.get("f"), r.get("vec")) for r in recs
                                          if any(m["path"] for m in r["in"]["ms"])})
    ctx.cov["rule"] = ("TLC enumerates flat structs with <= MaxMembers members over the child paths {none, a, ab, a.c, a.c.d, ab.e} in EVERY order "
                       "(+ struct-level ghosts addressed by child path, + member items none/rename/expression); each is compiled with the real proc-macro "
                       "against generated nested counterpart trees D / DX (DX has an extra leaf in every node) and all 12 conversions are executed; "
                       "TLC judges every nested leaf (Into), flat leaf (From), every untouched leaf of the pre-existing tree (into_existing), error "
                       "propagation from `?` sites, and that rustc's E0062 (field specified more than once) occurs exactly where the algorithm model "
                       "predicts a double construction.  Second stream (MC_Parent): bare #[parent] (the parent type derives its own conversions), parameterised and nested "
                       "#[parent(...)] with renames, at every position among the other members; leaves of every conversion judged by Trace_Parent.  Non-trivial = at least one member has a child path.")
    ctx.cov["exhaustive"] = True
    for r in [x for x in recs if x["prop"] == "C03"][:2]:
        ctx.sample({"input": r["in"], "kind": r["k"], "fallible": r["f"], "observed": r["obs"]})
    if stats.get("runtime_failures"):
        raise core.ToolError(f"generated programs crashed at run time: {stats['runtime_failures'][:2]}")

    def corrupt(bad):
        for b in bad:
            if b.get("prop") == "C03" and b["obs"]:
                b["obs"][-1]["val"] += "'"
                return True
        return False
    core.canary(ctx, "C03 (one nested leaf altered)", "Trace_C03", [r for r in recs if r["prop"] == "C03"], corrupt)
    return ctx.finish()
