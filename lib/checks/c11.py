"""C11 -- generics, lifetimes and where-clauses are carried so the impl type-checks (DESIGN 7/C11).
(i) header facts of the real expansion (syn) judged by TLC against Header(g, kind);  (ii) rustc: the same inputs, with matching type definitions, are
type-checked with the real proc-macro, and by-reference conversions that re-borrow from the source are used so that a missing 'o2o bound is a
borrow-check error."""
import json
import re

import core
import rt
import streams

LEVEL = "model_checking"
DECL = {"la": "'a", "lb": "'b: 'a", "T": "T", "Tb": "T: Clone", "Td": "T = u8", "N": "const N: usize", "Nd": "const N: usize = 1"}
NAME = {"la": "'a", "lb": "'b", "T": "T", "Tb": "T", "Td": "T", "N": "N", "Nd": "N"}
FIELD = {"la": ("ra", "&'a V"), "lb": ("rb", "&'b V"), "T": ("t", "PhantomData<T>"), "Tb": ("t", "PhantomData<T>"), "Td": ("t", "PhantomData<T>"),
         "N": ("n", "[V; N]"), "Nd": ("n", "[V; N]")}
GHOSTV = {"ra": "&DUMMY", "rb": "&DUMMY", "t": "PhantomData", "n": "[V(0); N]"}
KOF = {("From", False): "FO", ("From", True): "FR", ("Into", False): "OI", ("Into", True): "RI", ("IntoExisting", False): "OIE", ("IntoExisting", True): "RIE"}


def cp_path(g):
    ps = g["ps"]
    if g["cargs"] == "none" or (g["cargs"] == "same" and not ps):
        return "D"
    if g["cargs"] == "same":
        return "D<" + ", ".join(NAME[p] for p in ps) + ">"
    return {"concrete": "D<u8>", "foreign": "D<'x>", "foreign2": "D<'x, 'x>", "foreign3": "D<'x, 'w, 'x>", "static": "D<'static>"}[g["cargs"]]


def where_attrs(g, cp):
    w = []
    if g["wc"] in ("default", "both"):
        w.append("#[where_clause(T: Defaulted)]")
    if g["wc"] in ("dedicated", "both"):
        w.append(f"#[where_clause({cp}| T: Dedicated)]")
    return " ".join(w)


def s_decl(g, with_types):
    """the deriving struct; with_types=True also returns the counterpart definition so that rustc can type-check"""
    ps = g["ps"]
    cp = cp_path(g)
    gens = ("<" + ", ".join(DECL[p] for p in ps) + ">") if ps else ""
    same = g["cargs"] == "same"
    fields = ["pub a: V,"]
    for p in ps:
        n, t = FIELD[p]
        fields.append((f"pub {n}: {t}," if same else f"#[ghost({{{GHOSTV[n]}}})] pub {n}: {t},"))
    ghosts = ""
    dfields = ["pub a: V,"]
    if same:
        dgens = gens
        dfields += [f"pub {FIELD[p][0]}: {FIELD[p][1]}," for p in ps]
    elif g["cargs"] == "concrete":
        dgens, dfields, ghosts = "<U>", dfields + ["pub u: PhantomData<U>,"], "#[ghosts(u: {PhantomData})]"
    elif g["cargs"] in ("foreign", "static"):
        dgens, dfields, ghosts = "<'y>", dfields + ["pub ry: &'y V,"], "#[ghosts(ry: {&DUMMY})]"
    elif g["cargs"] == "foreign2":
        dgens, dfields, ghosts = "<'y, 'z>", dfields + ["pub ry: &'y V,", "pub rz: &'z V,"], "#[ghosts(ry: {&DUMMY}, rz: {&DUMMY})]"
    elif g["cargs"] == "foreign3":
        dgens, dfields, ghosts = "<'y, 'z, 'u>", dfields + ["pub ry: &'y V,", "pub rz: &'z V,", "pub ru: &'u V,"], "#[ghosts(ry: {&DUMMY}, rz: {&DUMMY}, ru: {&DUMMY})]"
    else:
        dgens = ""
    s = f"#[derive(o2o)] #[map({cp})] #[into_existing({cp})] {where_attrs(g, cp)} {ghosts} pub struct S{gens} {{ {' '.join(fields)} }}"
    d = f"pub struct D{dgens} {{ {' '.join(dfields)} }}"
    return (s, d) if with_types else s


def observe(run):
    o = {"verdict": run["verdict"], "parse": "-", "impls": []}
    if run["verdict"] != "ok":
        return o
    p = run["proj"]
    o["parse"] = p["parse"]
    if p["parse"] != "ok":
        return o
    for im in p["impls"]:
        tr = im["trait"].split("::")[-1].strip()
        isfrom = tr == "From"
        arg = im["trait_args"][0] if im["trait_args"] else ""
        byref = arg.strip().startswith("&") if isfrom else im["self_ref"]
        k = KOF[(tr, bool(byref))]
        m = re.match(r"\s*&\s*('\w+)?", arg) if isfrom else None
        borrow = (m.group(1) or "") if (isfrom and byref and m) else (im["self_lt"] if byref else "")
        selfargs = re.search(r"<(.*)>\s*$", im["self_ty"])
        args = [a.strip() for a in selfargs.group(1).split(",")] if selfargs else []
        gens = [{"k": x["k"], "name": x["name"], "bounds": [streams.norm(b) for b in x.get("bounds", [])], "default": streams.norm(x.get("default", "-")) or "-"} for x in im["gens"]]
        o["impls"].append({"k": k, "gens": gens, "self_args": [streams.norm(a) for a in args if a], "borrow_lt": streams.norm(borrow),
                           "where": [streams.norm(w) for w in im["where"]]})
    return o


PRELUDE = '''#![allow(dead_code, unused, non_snake_case, non_camel_case_types)]
use o2o::o2o; use o2o::traits::IntoExisting; use core::marker::PhantomData;
#[derive(Clone, Copy, PartialEq, Default, Debug)] pub struct V(pub usize);
pub static DUMMY: V = V(0);
pub trait Defaulted {} impl<T> Defaulted for T {}
pub trait Dedicated {} impl<T> Dedicated for T {}
'''

# by-reference conversions whose member expression re-borrows from the source: they compile only with the 'o2o bound
O2O_CASES = [
    ("o1", "pub struct D { pub rr: V } #[derive(o2o)] #[from_ref(D)] pub struct S<'a> { #[from_ref(&~)] pub rr: &'a V } "
           "pub fn use_it<'s>(d: &'s D) -> S<'s> { d.into() }"),
    ("o2", "pub struct D<'x> { pub rr: &'x V } #[derive(o2o)] #[ref_into(D<'x>)] pub struct S { #[ref_into(&~)] pub rr: V } "
           "pub fn use_it<'s>(s: &'s S) -> D<'s> { s.into() }"),
    ("o3", "pub struct D<'x> { pub rr: &'x V } #[derive(o2o)] #[ref_into_existing(D<'x>)] pub struct S { #[ref_into_existing(&~)] pub rr: V } "
           "pub fn use_it<'s>(s: &'s S, d: &mut D<'s>) { s.into_existing(d) }"),
    ("o4", "pub struct D<'x, T> { pub rr: &'x V, pub t: PhantomData<T> } #[derive(o2o)] #[ref_into(D<'x, T>)] pub struct S<T> { #[ref_into(&~)] pub rr: V, pub t: PhantomData<T> } "
           "pub fn use_it<'s, T>(s: &'s S<T>) -> D<'s, T> { s.into() }"),
]


def run(tier, seed):
    ctx = core.Ctx("C11", tier, seed, LEVEL)
    r = core.tlc("MC_C11", "MC_C11_q" if tier == "quick" else "MC_C11_t", workers=8, timeout=1200)
    if not r.ok:
        raise core.ToolError("MC_C11: header theorems violated on the specification or TLC error:\n" + r.stdout[-2000:])
    ctx.add_tlc(r)
    cases = r.cases
    inp = [{"id": i, "src": s_decl(g, False).replace("#[derive(o2o)] ", "").replace("pub ", "")} for i, g in enumerate(cases)]
    res = core.project(core.expand(inp, "syn1"))
    trace = []
    for i, (g, rr) in enumerate(zip(cases, res)):
        o = observe(rr["runs"][0])
        o.update({"id": i, "g": g})
        trace.append(o)
    ok, mism, st = core.judge("Trace_C11", trace, tag="c11", timeout=1500)
    ctx.add_tlc(st)
    for m in mism:
        ctx.violation(dict(m["cell"]), m["symptom"], {"g": cases[m["id"]], "src": inp[m["id"]]["src"], "out": res[m["id"]]["runs"][0].get("out", "")[:1200]})
    # rustc as the judge of "the impl type-checks whenever the mapped types do"
    mods = []
    for i, g in enumerate(cases):
        s, d = s_decl(g, True)
        mods.append((f"g{i}", d + "\n" + s))
    mods += O2O_CASES
    failed = rt.check_modules("gen_c11", PRELUDE, mods)
    for n, msgs in failed.items():
        if n.startswith("g"):
            g = cases[int(n[1:])]
            cell = {"bounds": any(p in ("lb", "Tb") for p in g["ps"]), "defaults": any(p in ("Td", "Nd") for p in g["ps"]), "const": any(p in ("N", "Nd") for p in g["ps"]),
                    "cargs": g["cargs"], "own_non_lifetime": any(p not in ("la", "lb") for p in g["ps"])}
            ctx.violation(cell, "impl_does_not_type_check", {"g": g, "src": dict(mods)[n], "errors": msgs[:4]})
        else:
            ctx.violation({"case": n}, "byref_conversion_rejected_by_borrow_checker", {"src": dict(mods)[n], "errors": msgs[:4]})
    ctx.cov["evaluations"] = len(trace) + len(mods)
    ctx.cov["traces_validated_against_impl"] = ok
    ctx.cov["programs_type_checked"] = len(mods) - len(failed)
    ctx.cov["programs"] = len(mods)
    ctx.cov["distinct_nontrivial"] = len([g for g in cases if g["ps"]])
    ctx.cov["rule"] = ("TLC enumerates generic parameter lists of <= 3 from {'a, 'b: 'a, T, T: Clone, T = u8, const N: usize, const N: usize = 1} in every legal order x "
                       "counterpart arguments {none, same names, concrete, foreign lifetime, 'static} x where-clause {none, default, dedicated, both} and proves "
                       "DeclaredOnce / LifetimesCovered on Header; for each, all 6 infallible kinds are expanded: (i) syn reads impl parameters, self type arguments, borrow "
                       "lifetime and where-clause, judged by TLC; (ii) the same input with matching type definitions is type-checked by rustc with the real proc-macro, "
                       "plus by-reference conversions that re-borrow from the source (they compile only with the 'o2o bound).")
    ctx.cov["exhaustive"] = True
    for t in trace[100:102]:
        ctx.sample({"g": t["g"], "src": inp[t["id"]]["src"], "impl_params_of_first": t["impls"][0]["gens"] if t["impls"] else []})

    def corrupt(bad):
        for b in bad:
            for im in b["impls"]:
                if im["gens"]:
                    im["gens"] = im["gens"][1:]
                    return True
        return False
    core.canary(ctx, "C11 (one declared parameter dropped)", "Trace_C11", [t for t in trace if t["parse"] == "ok" and any(im["gens"] for im in t["impls"])][:10], corrupt)
    return ctx.finish()
