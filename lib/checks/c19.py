"""C19 -- expansion is a deterministic function of the input (DESIGN 7/C19): the same source text expanded twice in one process and in
several freshly started processes (fresh hash seeds); TLC judges the Rerun relation (same verdict, same tokens, same diagnostics in the same order)."""
import hashlib

import core
import streams

LEVEL = "model_checking"


def summarize(r):
    return {"verdict": r["verdict"], "out": hashlib.sha256(r.get("out", "").encode()).hexdigest()[:16] if r["verdict"] == "ok" else "",
            "msgs": r.get("msgs", []) + ([r.get("compile_error", "")[:0]] if False else [])}


def run(tier, seed):
    ctx = core.Ctx("C19", tier, seed, LEVEL)
    nproc = 3 if tier == "quick" else 8
    srcs = streams.exploration_sources(ctx, tier, seed, caps={"soup": 6000, "arms": 10000, "c15": 8000, "soup_t": 100000, "arms_t": 100000, "c15_t": 50000}, which=("soup", "arms", "c15", "flat", "c08", "c11", "repo"))
    # case twins: the same multi-fault inputs with counterpart names that differ only in letter case (Dto / DTO / dto), so that diagnostics
    # which name a type are equal up to case -- any ordering of the diagnostics that is not a total order on the exact text shows here
    import re
    twin = lambda t: re.sub(r"\bZ\b", "dto", re.sub(r"\bB\b", "DTO", re.sub(r"\bA\b", "Dto", t)))
    srcs += [("c15case", a, twin(t)) for st, a, t in srcs if st == "c15"]
    # trait-level repeat templates of instruction names whose kind sets overlap (from / map / from_owned): which template reaches a later
    # instruction must not depend on the iteration order of the map that holds the open templates
    from checks import c14
    rep_all = streams.tlc_cases(ctx, "MC_C14", "MC_C14_tq4", None, seed)
    if tier == "quick":
        # the sequences with two open templates of different names in front of a plain instruction are the ones where a lookup order could show:
        # all of those that have nothing else going on (no stop / skip), a seeded sample of the others
        import random
        two_open = lambda c: len(c["ts"]) == 3 and c["ts"][0]["rep"] and c["ts"][1]["rep"] and c["ts"][0]["n"] != c["ts"][1]["n"] and not c["ts"][2]["rep"]
        plain = lambda c: not any(t["stop"] or t["skip"] for t in c["ts"])
        hot = [c for c in rep_all if two_open(c) and plain(c)]
        rest = [c for c in rep_all if not (two_open(c) and plain(c))]
        random.Random(seed).shuffle(rest)
        rep_all = hot + rest[:6000]
    srcs += [("rep", c, c14.t_orig(c)) for c in rep_all]
    inp = [{"id": i, "src": s[2]} for i, s in enumerate(srcs)]
    runs = [[] for _ in inp]
    first = core.expand(inp, "syn1", repeat=2)                 # twice in one process
    for i, rr in enumerate(first):
        for r in rr["runs"][0]:
            runs[i].append(summarize(r))
    for p in range(nproc):                                      # freshly started processes: fresh RandomState keys
        be = "syn1" if p % 2 == 0 else "syn2"
        # a different sharding each time also varies how many maps each process created before a given input
        res = core.expand(inp, be, nproc=3 + p)
        if be == "syn1":
            for i, rr in enumerate(res):
                runs[i].append(summarize(rr["runs"][0]))
        else:
            for i, rr in enumerate(res):
                runs[i].append(dict(summarize(rr["runs"][0]), backend="syn2"))
    trace = []
    for i, rs in enumerate(runs):
        a = [r for r in rs if r.get("backend") != "syn2"]
        b = [{k: v for k, v in r.items() if k != "backend"} for r in rs if r.get("backend") == "syn2"]
        trace.append({"id": i, "prop": "C19", "runs": a})
        if len(b) >= 2:
            trace.append({"id": i, "prop": "C19", "runs": b})
    ok, mism, st = core.judge("Trace_C18", trace, tag="c19", timeout=3000)
    ctx.add_tlc(st)
    for m in mism:
        stream, abstract, src = srcs[m["id"]]
        nmsgs = max(len(r["msgs"]) for r in runs[m["id"]])
        ctx.violation({"multi_diagnostic": nmsgs >= 3}, m["symptom"], {"stream": stream, "src": src, "runs": runs[m["id"]][:4]})
    ctx.cov["evaluations"] = sum(len(t["runs"]) for t in trace)
    ctx.cov["traces_validated_against_impl"] = ok
    ctx.cov["inputs"] = len(inp)
    ctx.cov["expansions_per_input"] = 2 + nproc
    ctx.cov["inputs_with_2plus_diagnostics"] = sum(1 for rs in runs if len(rs[0]["msgs"]) >= 3)
    ctx.cov["distinct_nontrivial"] = ctx.cov["inputs_with_2plus_diagnostics"] + sum(1 for rs in runs if rs[0]["verdict"] == "ok")
    ctx.cov["rule"] = ("TLC-generated inputs (arm coverage: accepted and rejected; C15 stream: 1-4 simultaneous faults, also with counterpart names differing only in letter case; token soup) and all repository inputs; each "
                       "expanded twice in one process and once in each of N freshly started processes (alternating back-ends, different shardings); TLC judges "
                       "that verdict, token hash and the ordered list of diagnostics are identical across runs of one back-end.  Non-trivial = accepted, or rejected "
                       "with at least two diagnostics (where an unordered container could show).")
    ctx.cov["exhaustive"] = False
    for t in [t for t in trace if len(t["runs"][0]["msgs"]) >= 3][:2]:
        ctx.sample({"src": srcs[t["id"]][2], "diagnostics_in_order": t["runs"][0]["msgs"]})

    def corrupt(bad):
        for x in bad:
            m = list(x["runs"][0]["msgs"])
            if len(m) >= 3 and m[-1] != m[-2]:
                m[-1], m[-2] = m[-2], m[-1]
                x["runs"] = [x["runs"][0], dict(x["runs"][0], msgs=m)]
                return True
        return False
    cands = [t for t in trace if len(t["runs"]) >= 2 and len(t["runs"][0]["msgs"]) >= 3 and len(set(t["runs"][0]["msgs"][1:])) >= 2][:30]
    if cands:
        core.canary(ctx, "C19 (diagnostics of one run reordered)", "Trace_C18", cands, corrupt)
    return ctx.finish()
