"""C08 -- trait-instruction parameters: vars, ..update, return (run-time) and attribute / impl_attribute / inner_attribute (positions)."""
import json

import core
import streams
from checks import struct_stream as ss

LEVEL = "model_checking"


def run(tier, seed):
    ctx = core.Ctx("C08", tier, seed, LEVEL)
    cfg = "MC_Struct_c08q" if tier == "quick" else "MC_Struct_c08t"
    cases = ss.generate(ctx, cfg)
    obs, fail, stats = ss.observe(ctx, cases, cfg)
    recs = []
    for o in obs:
        if o["vec"] == "clean":
            for prop in ("C01", "C08"):       # C01's predicate covers the ..update / return leaves, C08's the evaluation log
                r = dict(o)
                r["prop"] = prop
                r["in"] = cases[o["case"]]
                recs.append(r)
    for ci, msgs in fail.items():
        recs.append({"prop": "CF", "case": ci, "in": cases[ci], "errors": msgs[:4]})
    ok, mism, st = core.judge("Trace_Struct", recs, tag="c08")
    ctx.add_tlc(st)
    for m in mism:
        cell = dict(m["cell"])
        items = sorted(cell.pop("items"))
        c = cases[m["case"]]
        cell.update({"vars": c["vars"], "upd": c["upd"], "ret": c["ret"]})
        sym = m["symptom"]
        if sym == "does_not_compile":
            codes = sorted({e.split("]")[0].split("[")[-1] for e in m["errors"] if "error[" in e})
            sym = "does_not_compile:" + ",".join(codes)
        ctx.violation(cell, sym, {"case": m["case"], "input": c, "items": items, "report": m, "program": ss.src_of(m["case"], c)[:6000]})
    ctx.cov["evaluations"] = len(recs)
    ctx.cov["traces_validated_against_impl"] = ok
    ctx.cov["programs"] = len(cases)
    ctx.cov["programs_compiled"] = stats.get("compiled")
    import attrs_c08
    attrs_c08.run(ctx, tier)
    # vars(...) in the post-init dialect (a bare #[parent] member changes the form of the Into body)
    from checks import parent_stream as ps
    pcases, pobs, pfail, pstats = ps.run_stream(ctx, tier)
    precs = ps.records(pcases, pobs, pfail, {"vars"})
    pok = ps.judge_into(ctx, pcases, precs, "c08-parent")
    ctx.cov["parent_stream_vars_evaluations"] = len(precs)
    ctx.cov["evaluations"] += len(precs)
    ctx.cov["traces_validated_against_impl"] += pok
    ctx.cov["distinct_nontrivial"] = len({(json.dumps(r["in"], sort_keys=True), r.get("k"), r.get("f")) for r in recs
                                          if r["in"]["vars"] or r["in"]["upd"] or r["in"]["ret"]}) + ctx.cov.get("attr_cases", 0)
    ctx.cov["rule"] = ("struct stream with vars in {0,1,2} x ..update x return x member menus (incl. a member expression that uses a var and bare "
                       "#[ghost] members that only the update base can supply); executed conversions; TLC compares leaves (update base supplies "
                       "exactly the undesignated leaves, return replaces the body) and the evaluation log (each var once, in order, before any "
                       "member expression); plus attribute positions read back by syn for every trait instruction name.  Non-trivial = a parameter present.")
    ctx.cov["exhaustive"] = True
    for r in [r for r in recs if r["prop"] == "C08" and r["in"]["vars"]][:2]:
        ctx.sample({"input": r["in"], "kind": r["k"], "evlog": r["evlog"], "observed": r["obs"]})

    def corrupt(bad):
        for b in bad:
            if b.get("prop") == "C08" and len([e for e in b["evlog"] if e[0] == "v"]) >= 1 and not b["in"]["ret"]:
                b["evlog"] = [e for e in b["evlog"] if e[0] != "v"][:1] + [e for e in b["evlog"] if e[0] == "v"] + [e for e in b["evlog"] if e[0] != "v"][1:]
                b["evlog"] = b["evlog"] + [["v", 1]]
                return True
        return False
    core.canary(ctx, "C08 (a var evaluated twice)", "Trace_Struct", [r for r in recs if r["prop"] == "C08" and r["in"]["vars"] and not r["in"]["ret"]], corrupt)
    return ctx.finish()
