"""C18 -- the syn 1 and syn 2 back-ends behave identically (DESIGN 7/C18): the two builds of the real derive on byte-identical source text."""
import hashlib
import re

import core
import streams

LEVEL = "model_checking"
# o2o's own configuration diagnostics (everything else originates in the parser library and is compared by verdict only)
O2O_MSG = re.compile(r"o2o|[Ii]nstruction|trait|Member |Type '|Ident here|Error type|Perhaps you meant|Missing|should (have|provide|specify|be)|"
                     r"supported type hints|already (set|defined)|will be overriden|must be terminated|not recognized in this context|"
                     r"only applicable to|at most one default")


def summarize(r):
    return {"verdict": r["verdict"], "out": hashlib.sha256(r.get("out", "").encode()).hexdigest()[:16] if r["verdict"] == "ok" else "",
            "msgs": r.get("msgs", []), "o2o": [m for m in r.get("msgs", []) if O2O_MSG.search(m)]}


def run(tier, seed):
    ctx = core.Ctx("C18", tier, seed, LEVEL)
    srcs = streams.exploration_sources(ctx, tier, seed)
    # where-predicates are parsed by syn's own Rust grammar, which differs between syn 1 and syn 2 on malformed fragments; the statement is about
    # o2o's behaviour on inputs whose embedded Rust fragments are well-formed, so random tokens are not put where a where-predicate is expected
    srcs = [s for s in srcs if not (s[0] == "soup" and s[1]["name"] == "where_clause")]
    inp = [{"id": i, "src": s[2]} for i, s in enumerate(srcs)]
    a = core.expand(inp, "syn1")
    b = core.expand(inp, "syn2")
    trace = []
    for i, (ra, rb) in enumerate(zip(a, b)):
        x, y = summarize(ra["runs"][0]), summarize(rb["runs"][0])
        if x["verdict"] == "input_parse_error" and y["verdict"] == "input_parse_error":
            continue
        trace.append({"id": i, "prop": "C18", "a": x, "b": y})
    ok, mism, st = core.judge("Trace_C18", trace, tag="c18", timeout=3000)
    ctx.add_tlc(st)
    byid = {t["id"]: t for t in trace}
    for m in mism:
        t = byid[m["id"]]
        stream, abstract, src = srcs[m["id"]]
        form = "brace_or_bracket_delimited" if re.search(r"#\[(o2o\()?[\w:]+\s*[\{\[]", src) else "name_value" if re.search(r"#\[[\w:]+\s*=", src) else "other"
        ctx.violation({"attr_form": form, "syn1": t["a"]["verdict"], "syn2": t["b"]["verdict"]}, m["symptom"],
                      {"stream": stream, "src": src, "syn1": t["a"], "syn2": t["b"]})
    ctx.cov["evaluations"] = len(trace)
    ctx.cov["traces_validated_against_impl"] = ok
    ctx.cov["inputs_by_stream"] = {k: sum(1 for s in srcs if s[0] == k) for k in sorted({s[0] for s in srcs})}
    ctx.cov["accepted_by_both"] = sum(1 for t in trace if t["a"]["verdict"] == "ok" and t["b"]["verdict"] == "ok")
    ctx.cov["distinct_nontrivial"] = len({s[2] for s in srcs if "#[" in s[2]})
    ctx.cov["rule"] = ("every input of the TLC-generated exploration streams (token soup, arm coverage, C15 faults, C04 sequences, attribute forms: word / list with "
                       "each delimiter / name-value / paths / foreign attributes) and of the repository, expanded by the syn 1 build and by the syn 2 build of the "
                       "real derive on byte-identical text; TLC judges the SwapBackend relation: same verdict, token-identical output (hash), same set of o2o diagnostics.")
    ctx.cov["exhaustive"] = tier != "quick"
    for t in trace[2000:2003]:
        ctx.sample({"src": srcs[t["id"]][2], "syn1": t["a"]["verdict"], "syn2": t["b"]["verdict"], "tokens_equal": t["a"]["out"] == t["b"]["out"]})

    def corrupt(bad):
        for x in bad:
            if x["a"]["verdict"] == "ok":
                x["b"]["out"] = "0" * 16
                return True
        return False
    core.canary(ctx, "C18 (one token hash altered)", "Trace_C18", [t for t in trace if t["a"]["verdict"] == "ok"][:30], corrupt)
    return ctx.finish()
