"""The struct stream: TLC-generated struct inputs compiled with the real proc-macro and executed (shared by C01/C07/C08)."""
import hashlib
import json

import core
import rt
from conc_struct import StructCase

_cache = {}


def spec_hash():
    h = hashlib.sha256()
    for f in sorted(list(core.SPEC.glob("*.tla")) + list((core.VERIF / "lib").glob("*.py"))):
        h.update(f.read_bytes())
    return h.hexdigest()[:12]


def generate(ctx, cfg, simulate=None, seed=1):
    r = core.tlc("MC_Struct", cfg, workers=8, simulate=simulate, extra=(["-seed", str(seed)] if simulate else None))
    if not r.ok and not simulate:
        raise core.ToolError(f"MC_Struct/{cfg}: design-level theorem violated or TLC error:\n{r.stdout[-3000:]}")
    if r.invariant_violated:
        raise core.ToolError(f"MC_Struct/{cfg}: design-level theorem violated: {r.invariant_violated}\n{r.stdout[-3000:]}")
    ctx.add_tlc(r)
    seen, cases = set(), []
    for c in r.cases:
        k = json.dumps(c, sort_keys=True)
        if k not in seen:
            seen.add(k)
            cases.append(c)
    return cases


def observe(ctx, cases, tag):
    """compile + run all cases; returns (obs grouped per case, compile failures)"""
    key = (core.repo_hash(), spec_hash(), hashlib.sha256(json.dumps(cases, sort_keys=True).encode()).hexdigest())
    cdir = core.OUT / "cache"
    cdir.mkdir(parents=True, exist_ok=True)
    cf = cdir / f"struct-{'-'.join(key)[:60]}.json"
    if cf.exists():
        d = json.loads(cf.read_text())
        ctx.notes.append(f"struct stream {tag}: cache hit (same /repo sources, spec and harness)")
        return d["obs"], {int(k): v for k, v in d["fail"].items()}, d["stats"]
    programs = {i: StructCase(i, c).program() for i, c in enumerate(cases)}
    obs, fail, stats = rt.build_and_run(programs)
    cf.write_text(json.dumps({"obs": obs, "fail": fail, "stats": stats}))
    return obs, fail, stats


def src_of(i, c):
    return StructCase(i, c).program()
