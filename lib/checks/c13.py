"""C13 -- #[o2o(...)] alternative syntaxes generate the same code as bare attributes (DESIGN 7/C13)."""
import copy
import json
import random

import core
import rewrite
import streams
from checks import c15

LEVEL = "model_checking"


def all_bare(c):
    d = copy.deepcopy(c)
    d["grouped"] = False
    for t in d["traits"]:
        t["own"] = False
    for t in d["tattrs"]:
        t["own"] = False
    for m in d["ms"]:
        for x in m:
            x["own"] = False
    return d


def run(tier, seed):
    ctx = core.Ctx("C13", tier, seed, LEVEL)
    cases = streams.tlc_cases(ctx, "MC_C15", "MC_C13_q", 25000 if tier == "quick" else None, seed)
    # two trait instructions x every spelling vector: a bare instruction in front of an #[o2o(..)] one (and the reverse) must keep the order of the impls
    cases += streams.tlc_cases(ctx, "MC_C15", "MC_C13_q2", 25000 if tier == "quick" else None, seed)
    cases = [c for c in cases if c != all_bare(c)]
    trace, srcs = [], {}
    inp = [{"id": f"vec:{i}", "srcs": [c15.concretize(all_bare(c)), c15.concretize(c)]} for i, c in enumerate(cases)]
    res = core.expand(inp, "syn1")
    for x, rr in zip(inp, res):
        srcs[x["id"]] = x["srcs"]
        trace.append(rewrite.relate(x["id"], "tokens", rr["runs"][0], rr["runs"][1]))
    # syn-level respelling / grouping of every instruction that is valid where it stands: repository + arm coverage + C04 sequences
    ex = streams.exploration_sources(ctx, tier, seed, caps={"arms": 8000}, which=("arms", "c04", "repo"))
    rw = core.project([{"id": i, "origin": s[0], "src": s[2]} for i, s in enumerate(ex)], mode="rewrite")
    inp = []
    for i, r in enumerate(rw):
        for j, name in ((1, "respell"), (2, "group")):
            if r["srcs"][j] and r["srcs"][j] != r["srcs"][0]:
                inp.append({"id": f"{name}:{i}", "srcs": [r["srcs"][0], r["srcs"][j]]})
    res = core.expand(inp, "syn1")
    for x, rr in zip(inp, res):
        srcs[x["id"]] = x["srcs"]
        trace.append(rewrite.relate(x["id"], "tokens", rr["runs"][0], rr["runs"][1]))
    ok, mism, st = core.judge("Trace_Rewrite", trace, tag="c13", timeout=3000)
    ctx.add_tlc(st)
    for m in mism:
        a, b = srcs[m["id"]]
        ctx.violation({"stream": m["id"].split(":")[0], "allow_unknown": "allow_unknown" in a}, m["symptom"], {"bare": a, "respelled": b})
    ctx.cov["evaluations"] = len(trace)
    ctx.cov["traces_validated_against_impl"] = ok
    ctx.cov["pairs_by_stream"] = {k: sum(1 for t in trace if t["id"].startswith(k)) for k in ("vec", "respell", "group")}
    ctx.cov["accepted_pairs"] = sum(1 for t in trace if t["v1"] == "ok")
    ctx.cov["distinct_nontrivial"] = len({srcs[t["id"]][1] for t in trace})
    ctx.cov["rule"] = ("TLC enumerates small inputs (one or two trait instructions / type-level / member-level instructions, valid, misplaced and misnamed ones) with EVERY spelling vector "
                       "(each instruction bare or #[o2o(..)], adjacent own ones grouped into one list or not); the real derive expands the all-bare form and the "
                       "respelled form: token identity, same verdict, same diagnostics modulo the documented allow_unknown hint; plus syn-level respelling and "
                       "grouping of every instruction valid at its level in the repository's inputs, C04 sequences and arm-coverage inputs.")
    ctx.cov["exhaustive"] = tier != "quick"
    for t in trace[100:102]:
        ctx.sample({"bare": srcs[t["id"]][0], "respelled": srcs[t["id"]][1], "verdicts": [t["v1"], t["v2"]], "token_identical": t["identical"]})

    def corrupt(bad):
        for b in bad:
            if b["v1"] == "ok":
                b["identical"] = False
                return True
        return False
    core.canary(ctx, "C13 (expansions reported different)", "Trace_Rewrite", [t for t in trace if t["v1"] == "ok"][:20], corrupt)
    return ctx.finish()
