"""C15 -- documented misuse is reported, completely, in any context; valid inputs are never rejected (DESIGN 7/C15)."""
import json
import re

import core

LEVEL = "fault_enumeration"


def cpfx(cp):
    return "" if cp == "-" else cp + "| "


def sp(own, body):
    return (own, body)


def spell(items, grouped):
    """items: list of (own, body).  own ones are written #[o2o(body)]; with `grouped`, adjacent own ones share one #[o2o(a, b)] list."""
    out, run = [], []
    for own, body in items:
        if own and grouped:
            run.append(body)
            continue
        if run:
            out.append("#[o2o(" + ", ".join(run) + ")]")
            run = []
        out.append(f"#[o2o({body})]" if own else f"#[{body}]")
    if run:
        out.append("#[o2o(" + ", ".join(run) + ")]")
    return " ".join(out)


def concretize(c, tag=False):
    """tag=True: arguments carry the counterpart they are dedicated to, so that a leak across counterparts is visible (C06)"""
    sfx = (lambda cp: {"-": "0", "A": "a", "B": "b"}.get(cp, "z")) if tag else (lambda cp: "")
    a = []
    for t in c["traits"]:
        e = "" if t["err"] == "-" else ", Er"
        h = " as {}" if t["hint"] == "struct" else ""
        # dcB (C06): the From-side instruction for counterpart B carries a default case
        dc = " | _ => dflt_b()" if c.get("dcB") and t["cp"] == "B" and t["n"] == "map" else ""
        a.append((t.get("own", False), f'{t["n"]}({t["cp"]}{h}{e}{dc})'))
    for t in c["tattrs"]:
        n = t["n"]
        x = sfx(t["cp"])
        arg = {"ghosts": f"gx{x}: {{gh{x}()}}", "where_clause": f"T: Clone{x}", "child_parents": f"p: P{x}" + ({"b": " as ()"}.get(x, "") if tag else ""), "parent": "", "literal": "1", "pattern": "_", "type_hint": "as ()",
               "children": "p: P", "ghost": "{gh()}", "child": "p", "bogus": "x",
               "child_parents_q": f"q: Q{x}", "child_parents_pq": f"p: P{x}, p.q: Q{x}"}[n]
        n = {"child_parents_q": "child_parents", "child_parents_pq": "child_parents"}.get(n, n)
        body = f'{n}({cpfx(t["cp"])}{arg})' if arg or t["cp"] != "-" else n
        a.append(sp(t["own"], body))
    fs = []
    enum = c["dt"] == "enum"
    for i, m in enumerate(c["ms"], 1):
        ma = []
        for x in m:
            n, cp = x["n"], x["cp"]
            if n == "map":
                body = f'map({cpfx(cp)}{"R" if enum else "r"}{i}{sfx(cp)})'
            elif n == "map_bare":
                body = "map"
            elif n == "map_action":
                body = f"map({cpfx(cp)}~.clone())"
            elif n == "ghost_nd":
                body = f"ghost({cp})" if cp != "-" else "ghost"
            elif n == "ghost_d":
                body = f"ghost({cpfx(cp)}{{gh{sfx(cp)}()}})"
            elif n in ("ghost_owned_d", "ghost_ref_d"):
                x["own"] = True        # these have no bare form
                body = f"{n[:-2]}({cpfx(cp)}{{gh{sfx(cp)}()}})"
            elif n == "parentp":
                body = f"parent({cpfx(cp)}b1{sfx(cp)}, [map(q2{sfx(cp)})] b2{sfx(cp)})"
            elif n == "parentp_idx":
                body = f"parent({cpfx(cp)}0)"
            elif n == "parentp_untyped":
                body = f"parent({cpfx(cp)}b1, [parent(c1)] inner)"
            elif n == "parentp_untyped2":
                body = f"parent({cpfx(cp)}b1, [parent(c1)] inner: Inner, [parent(c2)] inner2)"
            elif n == "parentp_untyped_deep":
                body = f"parent({cpfx(cp)}[parent([parent(d1)] deep)] inner: Inner)"
            elif n == "child":
                body = f"child({cpfx(cp)}p)"
            elif n == "child_pq":
                body = f"child({cpfx(cp)}p.q)"
            elif n == "parent0":
                body = f"parent({cp})" if cp != "-" else "parent"
            elif n == "literal":
                body = f"literal({cpfx(cp)}{i}{ {'0': '0', 'a': '1', 'b': '2', 'z': '3', '': ''}[sfx(cp)] })"
            elif n == "pattern":
                body = f"pattern({cpfx(cp)}_)" if not tag else f"pattern({cpfx(cp)}{ {'0': '10..=19', 'a': '20..=29', 'b': '30..=39', 'z': '40'}[sfx(cp)] })"
            elif n == "type_hint_s":
                body = f"type_hint({cpfx(cp)}as {{}})"
            elif n == "type_hint":
                body = f"type_hint({cpfx(cp)}as ())" if not tag else f"type_hint({cpfx(cp)}{ {'0': 'as ()', 'a': 'as {}', 'b': 'as Unit', 'z': 'as ()'}[sfx(cp)] })"
            elif n == "where_clause":
                body = "where_clause(T: Clone)"
            elif n in ("children", "child_parents"):
                body = f"{n}(p: P)"
            elif n == "bogus":
                body = "bogus(x)"
            else:
                raise ValueError(n)
            ma.append(sp(x["own"], body))
        g = c.get("grouped", False)
        if enum:
            payload = ""
            vfs = (c.get("vf") or [])
            if i <= len(vfs) and vfs[i - 1]:
                pf = []
                for j, fattrs in enumerate(vfs[i - 1], 1):
                    fa = []
                    for x in fattrs:
                        fn, fcp = x["n"], x["cp"]
                        fa.append({"map": f"#[map({cpfx(fcp)}n{i}_{j}{sfx(fcp)})]", "map_bare": "#[map]", "map_action": f"#[map({cpfx(fcp)}~.clone())]",
                                   "ghost_d": f"#[ghost({cpfx(fcp)}{{gh{sfx(fcp)}()}})]", "where_clause": "#[where_clause(T: Clone)]",
                                   "children": "#[children(p: P)]", "child_parents": "#[child_parents(p: P)]", "bogus": "#[o2o(bogus(x))]"}[fn])
                    pf.append(" ".join(fa) + " V,")
                payload = "(" + " ".join(pf) + ")"
            fs.append(spell(ma, g) + f" V{i}{payload},")
        elif c["shape"] == "named":
            fs.append(spell(ma, g) + f" s{i}: V,")
        else:
            fs.append(spell(ma, g) + " V,")
    g = c.get("grouped", False)
    if enum:
        return spell(a, g) + " enum S<T> { " + " ".join(fs) + " }"
    if c["shape"] == "unit":
        return spell(a, g) + " struct S;"
    if c["shape"] == "named":
        return spell(a, g) + " struct S<T> { " + " ".join(fs) + " }"
    return spell(a, g) + " struct S<T> ( " + " ".join(fs) + " );"


RULES = [
    (r"At least one trait instruction", lambda m: "no_trait_instr/-"),
    (r"Ident here must be unique", lambda m: "dup_conv/-"),
    (r"Error type should be specified", lambda m: "missing_err/-"),
    (r"Error type should not be specified", lambda m: "superfluous_err/-"),
    (r"Type '(.+)' doesn't match any type", lambda m: "unknown_cp/" + m.group(1)),
    (r"at most one default #\[(\w+)\(", lambda m: "second_default/" + m.group(1)),
    (r"Dedicated #\[(\w+)\(\.\.\.\)\] instruction for type (\S+) is already defined", lambda m: f"second_dedicated/{m.group(1)}:{m.group(2)}"),
    (r"#\[ghost\(\.\.\.\)\] for member '(\w+)' should provide default value for type (\S+)", lambda m: f"ghost_no_default/{m.group(1)}:{m.group(2)}"),
    (r"Missing #\[child_parents\(\.\.\.\)\] instruction for (\S+)", lambda m: "child_no_parents/" + m.group(1)),
    (r"Missing '([\w.]+): \[Type Path\]' instruction for type (\S+)", lambda m: f"child_missing_parent/{m.group(1)}:{m.group(2)}"),
    (r"(?:Member|Struct) instruction '(\w+)' should be used on", lambda m: "misplaced/" + m.group(1)),
    (r"(?:Member|Struct) instruction '(\w+)' is not applicable to enums", lambda m: "misplaced/" + m.group(1)),
    (r"Perhaps you meant '(\w+)'", lambda m: "misnamed/" + m.group(1)),
    (r"(?:Member|Struct) instruction '(\w+)' is not supported\.", lambda m: "unknown_instr/" + m.group(1)),
    (r"Instruction #\[(\w+)\(\.\.\.\)\] is not supported for this member", lambda m: "unsupported_member/" + m.group(1)),
    (r"Member (\d+) of a variant V(\d+) should have member trait instruction with field name", lambda m: f"tuple_named_mismatch/V{m.group(2)}.{m.group(1)}"),
    (r"Member (\d+) should have member trait instruction with field name", lambda m: "tuple_named_mismatch/" + m.group(1)),
    (r"Member (\d+) should have an instruction that specifies corresponding field name", lambda m: "parent_field_unnamed/" + m.group(1)),
    (r"Field '(\w+)' should have type here", lambda m: "untyped_parent/" + m.group(1)),
    (r"Member trait instruction #\[\w+\(\.\.\.\)\] for member (\d+) should specify corresponding field name", lambda m: "tuple_named_mismatch/" + m.group(1)),
]


def classify(msgs):
    cl, other = [], []
    for m in msgs:
        if m == "Cannot expand o2o macro":
            continue
        for pat, f in RULES:
            mm = re.search(pat, m)
            if mm:
                cl.append(f(mm))
                break
        else:
            other.append(m)
    return sorted(set(cl)), other


def run(tier, seed):
    ctx = core.Ctx("C15", tier, seed, LEVEL)
    cfgs = ["MC_C15_q1", "MC_C15_q2", "MC_C15_q3", "MC_C15_q4", "MC_C15_q5", "MC_C15_q6", "MC_C15_q7", "MC_C15_q8", "MC_C15_q9"]
    import streams
    cases = []
    for cfg in cfgs:
        # quick: at most 25 000 inputs per configuration (seeded sample, noted in the evidence); thorough judges all of them
        cases += streams.tlc_cases(ctx, "MC_C15", cfg, 25000 if tier == "quick" else None, seed, timeout=1500)
    seen, uniq = set(), []
    for c in cases:
        k = json.dumps(c, sort_keys=True)
        if k not in seen:
            seen.add(k)
            uniq.append(c)
    cases = uniq
    srcs = [concretize(c) for c in cases]
    runs = core.expand([{"id": i, "src": s} for i, s in enumerate(srcs)], "syn1")
    trace = []
    for i, (c, rr) in enumerate(zip(cases, runs)):
        r = rr["runs"][0]
        cl, other = classify(r.get("msgs", []))
        trace.append({"id": i, "in": c, "verdict": r["verdict"], "classes": cl, "other": other + ([r.get("site", "")] if r["verdict"] == "panic" else [])})
    ok, mism, st = core.judge("Trace_C15", trace, tag="c15", timeout=3000)
    ctx.add_tlc(st)
    for m in mism:
        key = sorted({k.split("/")[0] for k in m["missing"]} | {"+" + k.split("/")[0] for k in m["spurious"]})
        ctx.violation({"dt": m["dt"], "shape": m["shape"], "classes": ",".join(key)}, m["symptom"],
                      {"src": srcs[m["id"]], "input": cases[m["id"]], "expected": m["expected"], "observed": m["observed"], "other": m["other"]})
    # class 11, conflicting repeat parameters: the sequences of O2ORepeat (trait level: two names, vars / update; member level), judged by Trace_C14's
    # Cfl / Symptom -- a conflicting sequence must be rejected with a diagnostic, a sequence without conflict must not be rejected for its repeat
    from checks import c14
    rtrace, rsrc = [], {}
    for lvl, cfg, cap in (("trait", "MC_C14_tq2", None), ("trait", "MC_C14_tq", 4000 if tier == "quick" else None), ("member", "MC_C14_mq", 4000 if tier == "quick" else None)):
        rc = streams.tlc_cases(ctx, "MC_C14", cfg, cap, seed)
        if lvl == "trait":
            rc = [c for c in rc if all(sum(1 for p in t["own"] if p != "vars") <= 1 for t in c["ts"])]
        rin = [{"id": i, "src": (c14.t_orig(c) if lvl == "trait" else c14.m_orig(c))} for i, c in enumerate(rc)]
        for c, x, rr in zip(rc, rin, core.expand(rin, "syn1")):
            r = rr["runs"][0]
            rid = f"{cfg}:{x['id']}"
            rsrc[rid] = (x["src"], r.get("msgs", []))
            # only the verdict is judged here (the merged sets and the written-out form are C14's business)
            rtrace.append({"id": rid, "lvl": lvl, "stream": lvl, "s": c["ts"] if lvl == "trait" else c["ms"], "v1": r["verdict"], "v2": r["verdict"], "same": True,
                           "merged": [], "writable": False, "verdict_only": True})
    rok, rmism, rst = core.judge("Trace_C14", rtrace, tag="c15-repeat", timeout=3000)
    ctx.add_tlc(rst)
    for m in rmism:
        if m["symptom"] in ("conflict_accepted", "conflict_panics", "valid_repeat_rejected"):
            ctx.violation({"dt": "struct", "shape": "named", "classes": "repeat_conflict", "level": m["lvl"]},
                          "faulty_input_accepted" if m["symptom"] == "conflict_accepted" else m["symptom"], {"src": rsrc[m["id"]][0], "messages": rsrc[m["id"]][1]})
    ctx.cov["repeat_conflict_sequences"] = len(rtrace)
    nf = sum(1 for t in trace if t["verdict"] == "err")
    ctx.cov["evaluations"] = len(trace) + len(rtrace)
    ctx.cov["traces_validated_against_impl"] = ok + rok
    ctx.cov["rejected_runs"] = nf
    ctx.cov["panicking_runs_left_to_C16"] = sum(1 for t in trace if t["verdict"] == "panic")
    ctx.cov["accepted_runs"] = sum(1 for t in trace if t["verdict"] == "ok")
    ctx.cov["distinct_nontrivial"] = len({json.dumps(t["classes"]) + t["in"]["dt"] + t["in"]["shape"] + str(len(t["in"]["ms"])) for t in trace if t["classes"]})
    ctx.cov["fault_class_sets_seen"] = len({json.dumps(t["classes"]) for t in trace})
    ctx.cov["rule"] = ("TLC builds inputs by Author actions (trait instructions x type-level instructions x members x member instructions, default and dedicated "
                       "to known / unknown counterparts, valid, misplaced, misnamed and unknown names, structs / tuple structs / enums), so every rule "
                       "class is broken at every position and in every combination up to the bounds; the diagnostics of the real derive are mapped to "
                       "class/argument keys by key phrases and TLC demands equality with Faults(in) (complete, nothing spurious, accepted iff no fault). "
                       "distinct_nontrivial = distinct (set of fault keys, type kind, shape, member count) with at least one fault.")
    ctx.cov["exhaustive"] = tier != "quick" or len(uniq) == len(cases)
    for t in [t for t in trace if len(t["classes"]) >= 2][:3]:
        ctx.sample({"src": srcs[t["id"]], "verdict": t["verdict"], "diagnostic_keys": t["classes"]})

    def corrupt(bad):
        for b in bad:
            if b["classes"]:
                b["classes"] = b["classes"][1:]
                return True
        return False
    core.canary(ctx, "C15 (one reported diagnostic removed)", "Trace_C15", [t for t in trace if t["classes"]][:30], corrupt)
    return ctx.finish()
