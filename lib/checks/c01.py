"""C01 -- struct conversions deliver every value to the designated field (DESIGN 7/C01)."""
import json

import core
from checks import struct_stream as ss

LEVEL = "model_checking"


def run(tier, seed):
    ctx = core.Ctx("C01", tier, seed, LEVEL)
    cfg = "MC_Struct_c01q" if tier == "quick" else "MC_Struct_c01t"
    cases = ss.generate(ctx, cfg)
    obs, fail, stats = ss.observe(ctx, cases, cfg)
    recs = []
    for o in obs:
        if o["vec"] == "clean":
            r = dict(o)
            r["prop"] = "C01"
            r["in"] = cases[o["case"]]
            recs.append(r)
    for ci, msgs in fail.items():
        recs.append({"prop": "CF", "case": ci, "in": cases[ci], "errors": msgs[:4]})
    ok, mism, st = core.judge("Trace_Struct", recs, tag="c01")
    ctx.add_tlc(st)
    for m in mism:
        cell = dict(m["cell"])
        items = sorted(cell.pop("items"))
        sym = m["symptom"]
        if sym == "does_not_compile":
            codes = sorted({e.split("]")[0].split("[")[-1] for e in m["errors"] if "error[" in e})
            sym = "does_not_compile:" + ",".join(codes)
        ctx.violation(cell, sym, {"case": m["case"], "input": cases[m["case"]], "items": items, "report": m, "program": ss.src_of(m["case"], cases[m["case"]])[:6000]})
    ctx.cov["evaluations"] = len(recs)
    ctx.cov["traces_validated_against_impl"] = ok
    ctx.cov["programs"] = len(cases)
    ctx.cov["programs_compiled"] = stats.get("compiled")
    ctx.cov["distinct_nontrivial"] = len({(json.dumps(r["in"], sort_keys=True), r.get("k"), r.get("f")) for r in recs if r["in"]["ms"]})
    ctx.cov["rule"] = ("TLC enumerates struct shape x counterpart form x member menus x struct-level ghosts (MC_Struct); each well-formed input is "
                       "compiled with the real #[derive(o2o)] as twin types (infallible / fallible) and all 12 conversions are executed on "
                       "pairwise distinct symbolic atoms; one evaluation = one executed conversion whose every result leaf TLC compares with "
                       "Expected(in, kind); distinct = distinct (input, kind, fallibility); non-trivial = at least one member.")
    ctx.cov["exhaustive"] = True
    ctx.assumptions += ["leaf values are symbolic atoms of a Copy handle type; numeric (as_type) leaves carry the atom's index",
                        "counterpart types are declared by the harness from the author's view the abstract input describes"]
    for r in recs[:3]:
        ctx.sample({"input": r["in"], "kind": r.get("k"), "fallible": r.get("f"), "observed": r.get("obs")})
    if stats.get("runtime_failures"):
        raise core.ToolError(f"generated programs crashed at run time: {stats['runtime_failures'][:2]}")

    def corrupt(bad):
        for b in bad:
            if b.get("prop") == "C01" and b["obs"]:
                b["obs"][0]["val"] = b["obs"][0]["val"] + "'"
                return True
        return False
    core.canary(ctx, "C01 (one delivered leaf value altered)", "Trace_Struct", recs, corrupt)
    return ctx.finish()
