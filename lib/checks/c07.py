"""C07 -- owned / by-reference / fallible / into-existing flavours of one mapping agree (DESIGN 7/C07).
Relational judge (real code against itself, TLC decides when the same instructions apply) + error propagation."""
import json

import core
from checks import struct_stream as ss

LEVEL = "model_checking"
PAIRS = [  # (a, b) flavours of one case whose observations are paired; TLC decides whether they must agree
    (("FO", False), ("FO", True)), (("FR", False), ("FR", True)), (("OI", False), ("OI", True)), (("RI", False), ("RI", True)),
    (("OIE", False), ("OIE", True)), (("RIE", False), ("RIE", True)),
    (("FO", False), ("FR", False)), (("OI", False), ("RI", False)), (("OIE", False), ("RIE", False)),
    (("FO", True), ("FR", True)), (("OI", True), ("RI", True)), (("OIE", True), ("RIE", True)),
    (("OI", False), ("OIE", False)), (("RI", False), ("RIE", False)), (("OI", True), ("OIE", True)), (("RI", True), ("RIE", True)),
]


def run(tier, seed):
    ctx = core.Ctx("C07", tier, seed, LEVEL)
    cfgs = ["MC_Struct_c01q"] if tier == "quick" else ["MC_Struct_c01t", "MC_Struct_c08q"]
    recs = []
    nprog = 0
    ncomp = 0
    allcases = []
    for cfg in cfgs:
        cases = ss.generate(ctx, cfg)
        obs, fail, stats = ss.observe(ctx, cases, cfg)
        nprog += len(cases)
        ncomp += stats.get("compiled", 0)
        base = len(allcases)
        allcases += cases
        by = {}
        for o in obs:
            o = dict(o)
            o["case"] += base
            by.setdefault(o["case"], {})[(o["k"], o["f"], o["vec"])] = o
            if o["vec"] != "clean":
                r = dict(o)
                r["prop"] = "C07p"
                r["in"] = allcases[o["case"]]
                recs.append(r)
        for ci, d in by.items():
            for (ka, fa), (kb, fb) in PAIRS:
                a, b = d.get((ka, fa, "clean")), d.get((kb, fb, "clean"))
                if a and b:
                    recs.append({"prop": "C07r", "in": allcases[ci], "a": a, "b": b})
    # error propagation through the conversion of a bare #[parent] member's own type (a swallowed `?` in the post-init call shows here)
    from checks import parent_stream as ps
    pcases, pobs, pfail, pstats = ps.run_stream(ctx, tier)
    precs = ps.records(pcases, pobs, pfail, {"poison", "leaf"})     # every flavour against the specification, which designates the same values for all
    pok = ps.judge_into(ctx, pcases, precs, "c07-parent")
    ctx.cov["parent_stream_poison_vectors"] = len(precs)
    ok, mism, st = core.judge("Trace_Struct", recs, tag="c07")
    ctx.add_tlc(st)
    for m in mism:
        cell = dict(m["cell"])
        items = sorted(cell.pop("items"))
        ctx.violation(cell, m["symptom"], {"case": m["case"], "input": allcases[m["case"]], "items": items, "report": m, "program": ss.src_of(m["case"], allcases[m["case"]])[:6000]})
    ctx.cov["evaluations"] = len(recs) + len(precs)
    ctx.cov["traces_validated_against_impl"] = ok + pok
    ctx.cov["programs"] = nprog
    ctx.cov["programs_compiled"] = ncomp
    ctx.cov["poison_vectors"] = sum(1 for r in recs if r["prop"] == "C07p")
    ctx.cov["distinct_nontrivial"] = len({(json.dumps(r["in"], sort_keys=True), r["a"]["k"], r["a"]["f"], r["b"]["k"], r["b"]["f"]) for r in recs if r["prop"] == "C07r"}) + ctx.cov["poison_vectors"]
    ctx.cov["rule"] = ("the struct stream of C01 (TLC-enumerated inputs, real proc-macro, executed); one evaluation = one pair of flavours of one input "
                       "observed on equal vectors (TLC decides from the spec whether the same instructions apply to both and then demands equal results, "
                       "and that the leaf no instruction mentions is untouched by into_existing), or one poison vector (a `?` site fails: the conversion "
                       "must return exactly that error).  Compile failures of the stream are C01's business and are not re-reported here.")
    ctx.cov["exhaustive"] = True
    for r in recs[:2]:
        ctx.sample({k: v for k, v in r.items() if k != "in"} | {"input": r["in"]})
    if recs and not any(r["prop"] == "C07p" for r in recs):
        raise core.ToolError("no poison vectors were executed (vacuous error-propagation check)")

    def corrupt(bad):
        for b in bad:
            if b.get("prop") == "C07r" and b["b"]["obs"] and b["a"]["k"] == b["b"]["k"]:
                b["b"]["obs"][0]["val"] += "'"
                return True
        return False
    core.canary(ctx, "C07 (fallible flavour's leaf altered)", "Trace_Struct", [r for r in recs if r["prop"] == "C07r"], corrupt)

    def corrupt2(bad):
        for b in bad:
            if b.get("prop") == "C07p" and b["res"] == "err":
                b["res"] = "ok"
                return True
        return False
    core.canary(ctx, "C07 (a propagated error turned into a value)", "Trace_Struct", [r for r in recs if r["prop"] == "C07p" and r["res"] == "err"], corrupt2)
    return ctx.finish()
