"""C06 -- impls for one counterpart are independent of the other counterparts (DESIGN 7/C06).
TLC enumerates two-counterpart inputs with every dedicatable instruction in default and dedicated form (different payload per counterpart), computes
ProjectTo(in, cp) and proves that projection keeps validity; the real derive expands the joint input and both projections; the impls for cp in the
joint expansion must be exactly the impls of the projected input (the real code compared with itself)."""
import collections
import json
import re

import core
import streams
from checks import c15

LEVEL = "model_checking"


HEADER = re.compile(r"(?:From|Into|IntoExisting) < (?:& (?:' ?o2o )?)?(\w+)")


def impls_by_cp(run):
    """impl items of one expansion, keyed by the counterpart named in the trait header.  Works on the flattened token stream (no parse needed),
    so that an ill-formed impl for one counterpart does not hide the impls for the other."""
    from checks.c10 import split_impls
    out = collections.defaultdict(collections.Counter)
    for imp in split_impls(run["toks"]):
        text = " ".join(t[1] for t in imp)
        m = HEADER.search(" ".join(t[1] for t in imp[:24]))
        out[m.group(1) if m else "?"][text] += 1
    return out


def run(tier, seed):
    ctx = core.Ctx("C06", tier, seed, LEVEL)
    cases = []
    for cfg in (["MC_C06_q"] if tier == "quick" else ["MC_C06_q", "MC_C06_t"]):          # _t: two members with one instruction each
        r = core.tlc("MC_C15", cfg, workers=12, timeout=3000)
        if not r.ok:
            raise core.ToolError(f"MC_C15/{cfg}: ProjectionKeepsValidity violated on the specification, or TLC error:\n" + r.stdout[-3000:])
        ctx.add_tlc(r)
        cases += [c for c in r.cases if not c["faults"]]
    # enums once more with a default case on B's From-side instruction: it belongs to B's impls whether or not A has literals / patterns
    import copy
    extra = []
    for c in cases:
        if c["in"]["dt"] == "enum":
            d = copy.deepcopy(c)
            for k in ("in", "pa", "pb"):
                d[k]["dcB"] = True
            extra.append(d)
    cases += extra
    inp = [{"id": i, "srcs": [c15.concretize(c["in"], True), c15.concretize(c["pa"], True), c15.concretize(c["pb"], True)]} for i, c in enumerate(cases)]
    res = core.expand(inp, "syn1", tokens=True)
    trace, detail, vd, skipped = [], {}, {}, {}
    for x, c, rr in zip(inp, cases, res):
        j, pa, pb = rr["runs"]
        for cp, pr, k in (("A", pa, 1), ("B", pb, 2)):
            rid = f"{x['id']}:{cp}"
            detail[rid] = (x["srcs"][0], x["srcs"][k], c["in"])
            ok_all = all(q["verdict"] == "ok" for q in (j, pr))
            if ok_all:
                jb = impls_by_cp(j).get(cp, collections.Counter())
                pbag = sum(impls_by_cp(pr).values(), collections.Counter())
                eq = jb == pbag
            else:
                eq = False
            v = lambda q: q["verdict"]
            vd[rid] = [v(j), v(pr), j.get("site", ""), (j.get("msgs") or [""])[-1][:100]]
            if "panic" in (v(j), v(pr)) or "unparseable" in (v(j), v(pr)):
                skipped[v(j) if v(j) != "ok" else v(pr)] = skipped.get(v(j) if v(j) != "ok" else v(pr), 0) + 1
                continue     # a panic is C16's violation, an unparseable expansion C17's; the impls of one counterpart cannot be isolated here
            trace.append({"id": rid, "rel": "bag", "v1": v(j), "v2": v(pr), "identical": eq, "bag_equal": eq, "msgs_equal": True})
    ok, mism, st = core.judge("Trace_Rewrite", trace, tag="c06", timeout=3000)
    ctx.add_tlc(st)
    for m in mism:
        joint, proj, ain = detail[m["id"]]
        kinds = sorted({x["n"] for x in ain["tattrs"]} | {x["n"] for mm in ain["ms"] for x in mm})
        ctx.violation({"dt": ain["dt"], "instrs": ",".join(kinds)}, m["symptom"], {"joint": joint, "projected": proj, "cp": m["id"].split(":")[1], "verdicts": vd[m["id"]]})
    ctx.cov["evaluations"] = len(trace)
    ctx.cov["traces_validated_against_impl"] = ok
    ctx.cov["valid_two_counterpart_inputs"] = len(cases)
    ctx.cov["not_comparable_left_to_C16_C17"] = skipped
    ctx.cov["distinct_nontrivial"] = len({json.dumps(c["in"], sort_keys=True) for c in cases if c["in"] != c["pa"] or c["in"] != c["pb"]})
    ctx.cov["rule"] = ("TLC enumerates structs and enums mapped to counterparts A and B (map + into_existing for A, map + try_into for B) x <=2 type-level "
                       "instructions (ghosts, where_clause, child_parents) x one member with <=2 instructions (map, ghost, child, parent / literal, pattern, "
                       "type_hint), each default or dedicated to A or B with a payload that names its counterpart, enums also with a default case on B's instruction; inputs the specification finds faultless "
                       "are expanded jointly and projected to each counterpart; one evaluation = the impls for one counterpart in the joint expansion vs. "
                       "the expansion of the projection (multiset of impl token strings).")
    ctx.cov["exhaustive"] = True
    for t in trace[500:502]:
        ctx.sample({"joint": detail[t["id"]][0], "projected": detail[t["id"]][1], "equal": t["bag_equal"]})

    def corrupt(bad):
        for b in bad:
            if b["v1"] == "ok":
                b["bag_equal"] = False
                return True
        return False
    core.canary(ctx, "C06 (bags reported unequal)", "Trace_Rewrite", [t for t in trace if t["v1"] == "ok"][:20], corrupt)
    return ctx.finish()
