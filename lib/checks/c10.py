"""C10 -- `@` and `~` are substituted everywhere; all other user tokens pass through (DESIGN 7/C10)."""
import json

import core

LEVEL = "model_checking"

# position -> (source template with {E}, convs to look at, tilde allowed)
POS = {
    "member_ren":   ("#[map(D)] #[into_existing(D)] struct S {{ a: V, #[map(rx, {{ {E} }})] s1: V }}", ("from", "into", "ie"), True),
    "member":       ("#[map(D)] #[into_existing(D)] struct S {{ a: V, #[map({{ {E} }})] s1: V }}", ("from", "into", "ie"), True),
    "member_child": ("#[map(D)] #[into_existing(D)] #[child_parents(p: P, p.q: Q)] struct S {{ a: V, #[child(p.q)] #[map(rx, {{ {E} }})] s1: V }}", ("from", "into", "ie"), True),
    "member_hint_t": ("#[map(D as ())] struct S {{ a: V, #[map({{ {E} }})] s1: V }}", ("from", "into"), True),
    "member_tuple": ("#[map(D)] struct S ( V, #[map({{ {E} }})] V );", ("from", "into"), True),
    "ghost":        ("#[from(D)] struct S {{ a: V, #[ghost({{ {E} }})] s1: V }}", ("from",), False),
    "ghosts":       ("#[into(D)] #[into_existing(D)] #[ghosts(g: {{ {E} }})] struct S {{ a: V }}", ("into", "ie"), False),
    "vars":         ("#[map(D | vars(v: {{ {E} }}))] #[into_existing(D | vars(v: {{ {E} }}))] struct S {{ a: V }}", ("from", "into", "ie"), False),
    "update":       ("#[map(D | ..{{ {E} }})] struct S {{ a: V }}", ("from", "into"), False),
    "return":       ("#[map(D | return {{ {E} }})] #[into_existing(D | return {{ {E} }})] struct S {{ a: V }}", ("from", "into", "ie"), False),
    "default":      ("#[from(D | _ => {{ {E} }})] enum S {{ #[literal(1)] V1, V2 }}", ("from",), False),
    "variant_expr": ("#[map(D)] enum S {{ #[map({{ {E} }})] V1, V2 }}", ("from", "into"), True),
    "payload":      ("#[map(D)] enum S {{ V1(#[map({{ {E} }})] V), V2 }}", ("from", "into"), True),
}


def split_impls(toks):
    out, cur, depth = [], [], 0
    for t in toks:
        if t[0] == "i" and t[1] == "impl" and depth == 0 and cur:
            out.append(cur)
            cur = []
        cur.append(t)
        if t[0] == "g":
            depth += 1 if t[1] in "([{" else -1
    if cur:
        out.append(cur)
    return out


def conv_of(imp):
    txt = " ".join(t[1] for t in imp[:16])
    if "From" in txt:
        return "from"
    if "IntoExisting" in txt:
        return "ie"
    return "into"


def run(tier, seed):
    ctx = core.Ctx("C10", tier, seed, LEVEL)
    r = core.tlc("MC_C10", "MC_C10_q" if tier == "quick" else "MC_C10_t", workers=12, timeout=3000)
    if not r.ok:
        raise core.ToolError("MC_C10:\n" + r.stdout[-2000:])
    ctx.add_tlc(r)
    exprs = r.cases
    inp, meta = [], []
    for c in exprs:
        e = " ".join(c["lex"])
        for pos, (tmpl, convs, tilde_ok) in POS.items():
            if c["tilde"] and not tilde_ok:
                continue          # `~` is defined only in member-level positions and variant expressions (README; DESIGN 8.2)
            inp.append({"id": len(inp), "src": tmpl.format(E=e), "frags": [e]})
            meta.append((pos, convs, e))
    res = core.expand(inp, "syn1", tokens=True)
    trace = []
    for x, (pos, convs, e), rr in zip(inp, meta, res):
        run0 = rr["runs"][0]
        if rr["frags"][0] == "lex_error":
            continue
        rec = {"id": x["id"], "pos": pos, "expr": rr["frags"][0], "verdict": run0["verdict"], "convs": []}
        if run0["verdict"] == "ok":
            for imp in split_impls(run0["toks"]):
                c = conv_of(imp)
                if c in convs:
                    rec["convs"].append({"conv": c, "out": imp})
        trace.append(rec)
    ok, mism, st = core.judge("Trace_C10", trace, tag="c10", timeout=3000)
    ctx.add_tlc(st)
    for m in mism:
        x = inp[m["id"]]
        ctx.violation({"pos": m["pos"], "convs": ",".join(sorted(m["failing"]))}, m["symptom"], {"src": x["src"], "expr": meta[m["id"]][2]})
    ctx.cov["evaluations"] = sum(max(1, len(t["convs"])) for t in trace)
    ctx.cov["traces_validated_against_impl"] = ok
    ctx.cov["expressions"] = len(exprs)
    ctx.cov["positions"] = sorted(POS)
    ctx.cov["distinct_nontrivial"] = len(trace)
    ctx.cov["rule"] = ("TLC enumerates every well-nested lexeme sequence of <= MaxLen lexemes (identifier, integer, a string literal containing @~, the char literal '~', "
                       "a lifetime, ::, =>, ..=, &&, ., !, |, ?, @, ~) with (), [], {} groups nested <= 2 that contains a placeholder; each is placed in every position that "
                       "accepts an expression (member instruction with / without rename / under a child path, ghost, ghosts, vars, ..update, return, default case, variant "
                       "expression, payload field); the author's text is tokenised by proc_macro2 and TLC judges that Subst(expr, @ := source object, ~ := the position's field "
                       "path) occurs as a contiguous run, spacing included, in the flattened tokens of every impl concerned.")
    ctx.cov["exhaustive"] = True
    for t in trace[200:202]:
        ctx.sample({"pos": t["pos"], "src": inp[t["id"]]["src"], "expr_tokens": t["expr"]})

    def corrupt(bad):
        for b in bad:
            lits = [t for t in b["expr"] if t[0] == "l"]
            if b["convs"] and lits:
                for c in b["convs"]:
                    c["out"] = [t for t in c["out"] if not (t[0] == "l" and t[1] == lits[0][1])]     # one of the user's literal tokens removed everywhere
                return True
        return False
    core.canary(ctx, "C10 (one user token removed from a recorded impl)", "Trace_C10",
                [t for t in trace if t["verdict"] == "ok" and t["convs"] and any(x[0] == "l" for x in t["expr"])][:30], corrupt)
    return ctx.finish()
