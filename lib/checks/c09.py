"""C09 -- literal / pattern instructions map enum variants to primitive values both ways (DESIGN 7/C09)."""
import json

import core
import rt

LEVEL = "model_checking"
DOMAIN = list(range(-2, 7)) + [99]


def val(prim, n):
    return str(n) if prim == "int" else f'"s{n}"'


def item_attr(it, prim, i, mode, two=False):
    lit = {"l0": 0, "l1": 1, "l2": 2, "l3": 3, "ln1": -1, "lg1": 1}
    ty = "i32" if prim == "int" else "StaticStr"
    d = f"{ty}| " if two else ""       # with a second counterpart every literal / pattern is dedicated to the primitive
    if it in lit:
        return f"#[literal({d}{val(prim, lit[it])})]" + (" #[ghost(Other)]" if it == "lg1" else "")
    if it == "lK":
        return f"#[literal({d}K2)]"
    if it == "dl1":
        return f"#[literal({val(prim, 55)})] #[literal({ty}| {val(prim, 1)})]"
    if it == "dp13":
        p13 = "1..=3" if prim == "int" else '"s1" | "s3"'
        p50 = "50..=60" if prim == "int" else '"s50" | "s60"'
        return f"#[pattern({p50})] #[pattern({ty}| {p13})]" + (f" #[into({{{val(prim, 70 + i)}}})]" if mode == "map" else "")
    pat = {"p13": "1..=3" if prim == "int" else '"s1" | "s3"', "p24": f"{val(prim, 2)} | {val(prim, 4)}", "ple1": "..=1", "pall": "_", "pK": "K4",
           "pn10": "-1..=0" if prim == "int" else '"s-1" | "s0"', "px13": "1..3"}[it]
    return f"#[pattern({d}{pat})]" + (f" #[into({{{val(prim, 70 + i)}}})]" if mode == "map" else "")


def program(ci, c):
    prim, mode = c["prim"], c["mode"]
    ty = "i32" if prim == "int" else "StaticStr"
    two = "lg1" in c["vs"]
    vs = " ".join(f"{item_attr(it, prim, i, mode, two)} V{i}," for i, it in enumerate(c["vs"], 1)) + f" #[literal({ty + '| ' if two else ''}{val(prim, 99)})] Z,"
    other = "#[derive(Clone, Copy, Debug)] pub enum Other { " + " ".join(f"V{i}," for i, it in enumerate(c["vs"], 1) if it != "lg1") + " Z }" if two else ""
    fo = "#[from_owned(Other)] " if two else ""
    instr, instrf = ("map_owned", "try_map_owned") if mode == "map" else ("from_owned", "try_from_owned")
    dflt = "_ => E::Z" if c["dflt"] == "value" else '_ => panic!("DEFAULT")'
    dfltf = "_ => Ef::Z" if c["dflt"] == "value" else "_ => Err(Er(0))?"
    E = f"#[derive(Clone, Copy, Debug, o2o)] #[{instr}({ty}| {dflt})] {fo}pub enum E {{ {vs} }}"
    Ef = f"#[derive(Clone, Copy, Debug, o2o)] #[{instrf}({ty}, Er| {dfltf})] {fo}pub enum Ef {{ {vs} }}"
    names = [f"V{i}" for i in range(1, len(c["vs"]) + 1)] + ["Z"]
    show = lambda t: "fn name_%s(e: %s) -> &'static str { match e { %s } }" % (t.lower(), t, " ".join(f'{t}::{n} => "{n}",' for n in names))
    pv = (lambda e: f"({e}) as i64") if prim == "int" else (lambda e: f"({e})[1..].parse::<i64>().unwrap()")
    run = []
    for x in DOMAIN:
        if c["dflt"] == "value":
            run.append(f'println!("{{{{\\"case\\":{ci},\\"prop\\":\\"from\\",\\"f\\":false,\\"x\\":{x},\\"got\\":\\"{{}}\\"}}}}", name_e(E::from({val(prim, x)})));')
        run.append(f'println!("{{{{\\"case\\":{ci},\\"prop\\":\\"from\\",\\"f\\":true,\\"x\\":{x},\\"got\\":\\"{{}}\\"}}}}", match Ef::try_from({val(prim, x)}) {{ Ok(e) => name_ef(e), Err(_) => "ERR" }});')
    if mode == "map":
        for i in range(1, len(c["vs"]) + 1):
            run.append(f'{{ let p: {ty} = E::V{i}.into(); println!("{{{{\\"case\\":{ci},\\"prop\\":\\"into\\",\\"f\\":false,\\"i\\":{i},\\"got\\":{{}}}}}}", {pv("p")}); }}')
            run.append(f'{{ let p: {ty} = Ef::V{i}.try_into().unwrap(); println!("{{{{\\"case\\":{ci},\\"prop\\":\\"into\\",\\"f\\":true,\\"i\\":{i},\\"got\\":{{}}}}}}", {pv("p")}); }}')
            run.append(f'{{ let p: {ty} = Ef::V{i}.try_into().unwrap(); println!("{{{{\\"case\\":{ci},\\"prop\\":\\"rt\\",\\"f\\":true,\\"i\\":{i},\\"got\\":\\"{{}}\\"}}}}", match Ef::try_from(p) {{ Ok(e) => name_ef(e), Err(_) => "ERR" }}); }}')
    nl = "\n  "
    return (f"pub mod c{ci} {{ use super::*;\npub type StaticStr = &'static str; pub const K2: i32 = 2; pub const K4: i32 = 4;\n{other}\n{E}\n{Ef}\n{show('E')}\n{show('Ef')}\n"
            f"pub fn run() {{\n  {nl.join(run)}\n}} }}")


def run(tier, seed):
    ctx = core.Ctx("C09", tier, seed, LEVEL)
    r = core.tlc("MC_C09", "MC_C09_q" if tier == "quick" else "MC_C09_t", workers=8, timeout=1500)
    if not r.ok:
        raise core.ToolError("MC_C09: round-trip theorem violated on the specification or TLC error:\n" + r.stdout[-2000:])
    ctx.add_tlc(r)
    cases = r.cases
    programs = {i: program(i, c) for i, c in enumerate(cases)}
    obs, fail, stats = rt.build_and_run(programs)
    recs = [dict(o, **{"in": cases[o["case"]]}) for o in obs]
    for ci, msgs in fail.items():
        recs.append({"prop": "CF", "case": ci, "in": cases[ci], "errors": msgs[:3]})
    ok, mism, st = core.judge("Trace_C09", recs, tag="c09", timeout=1500)
    ctx.add_tlc(st)
    for m in mism:
        c = cases[m["case"]]
        ctx.violation({"prim": m["prim"], "mode": m["mode"], "dflt": c["dflt"]}, m["symptom"] if m["symptom"] != "does_not_compile" else "does_not_compile",
                      {"input": c, "program": programs[m["case"]][:3000], "errors": fail.get(m["case"], [])[:3]})
    ctx.cov["evaluations"] = len(recs)
    ctx.cov["traces_validated_against_impl"] = ok
    ctx.cov["programs"] = len(cases)
    ctx.cov["programs_compiled"] = stats.get("compiled")
    ctx.cov["distinct_nontrivial"] = len({(json.dumps(r["in"], sort_keys=True), r["prop"], r.get("x"), r.get("i"), r.get("f")) for r in recs})
    ctx.cov["rule"] = ("TLC enumerates enums of <= MaxVariants variants, each a literal -1..3 (also written as a constant path) or a pattern (closed / half-open / negative range, alternatives, open range, "
                       "wildcard), distinct or overlapping, x integer / &'static str counterpart x from-only / both directions x default case {value, error}, and proves the "
                       "round-trip theorem on the specification; the real proc-macro compiles each (infallible and fallible), From is executed on EVERY value of -2..6 and 99, "
                       "Into on every variant, and the round trip; TLC judges each against FromExp / IntoExp / RoundTrip.")
    ctx.cov["exhaustive"] = True
    for rr in recs[:2]:
        ctx.sample({k: v for k, v in rr.items()})
    if stats.get("runtime_failures"):
        raise core.ToolError(f"generated programs crashed at run time: {stats['runtime_failures'][:2]}")

    def corrupt(bad):
        for b in bad:
            if b["prop"] == "from":
                b["got"] = "V9"
                return True
        return False
    core.canary(ctx, "C09 (one From result altered)", "Trace_C09", [x for x in recs if x["prop"] == "from"][:20], corrupt)
    return ctx.finish()
