"""C17 -- accepted inputs expand to syntactically valid impl items of the right shape (DESIGN 7/C17).
Every accepted input of the TLC-generated streams whose embedded fragments are well-formed by construction (arm coverage, C15, C04, C06, the
dialect product) and of the repository: the real output is parsed by syn as a file of items and TLC judges every item against Shape."""
import re

import core
import streams

LEVEL = "model_checking"


def norm(s):
    return re.sub(r"\s+", "", s or "")


TRY_ATTR = re.compile(r"(?:#\s*\[|[(,])\s*(?:owned_|ref_)?try_\w+\s*\(")


def split_top(s, sep):
    out, depth, cur = [], 0, ""
    for ch in s:
        if ch in "([{<":
            depth += 1
        elif ch in ")]}>":
            depth -= 1
        if ch == sep and depth == 0:
            out.append(cur)
            cur = ""
        else:
            cur += ch
    out.append(cur)
    return out


def declared_errs(src):
    """error types written in the fallible trait instructions of the input (second top-level argument, before `|`): a fact about the input text"""
    out = set()
    for m in TRY_ATTR.finditer(src):
        depth, j = 1, m.end()
        while j < len(src) and depth:
            depth += src[j] in "([{"
            depth -= src[j] in ")]}"
            j += 1
        args = split_top(split_top(src[m.end():j - 1], "|")[0], ",")
        if len(args) >= 2:
            out.add(norm(args[1]))
    return sorted(out)


def shape_record(rid, run, src=""):
    p = run["proj"]
    rec = {"id": rid, "parse": p["parse"], "non_impl_items": p.get("non_impl_items", 0) if p["parse"] == "ok" else 0, "impls": [], "declared_errs": declared_errs(src)}
    if p["parse"] != "ok":
        return rec
    for im in p["impls"]:
        f = im["fns"][0] if im["fns"] else {"name": "-", "inputs": [], "output": "-"}
        rec["impls"].append({"path": norm(im["trait"]), "args": [norm(a) for a in im["trait_args"]], "self": norm(im["self_ty"]), "self_ref": im["self_ref"],
                             "self_lt": norm(im["self_lt"]), "nfns": len(im["fns"]), "fn": f["name"], "inputs": [norm(x) for x in f["inputs"]],
                             "output": norm(f["output"]), "assoc": [{"name": a["name"], "ty": norm(a["ty"])} for a in im["assoc"]], "other": im["other_items"]})
    return rec


def kind_class(tn):
    return "ie" if "into_existing" in tn else "from" if "from" in tn else "into" if "into" in tn else "map"


def dialect_cell(stream, abstract, src):
    """the dialect dimensions an ill-formed output belongs to (for known findings); for the arm-coverage stream they come from the abstract input"""
    if stream == "arms":
        a = abstract
        names = {n for m in a["ms"] for n in m} | set(a["fs"])
        return {"stream": "arms", "dt": a["dt"], "kind": kind_class(a["tn"]), "tparam": a["tparam"], "hint": a["hint"], "shape": a["shape"],
                "bare_parent": "parent0" in names, "param_parent": bool(names & {"parentp", "parentp_idx"}), "ghosts": ("ghosts" in names or "ghosts_idx" in names or a["textra"].startswith("ghosts")),
                "lit_or_pat": bool(names & {"literal", "pattern"}), "child": "child" in names or a["textra"].startswith("cp_"), "type_hint": bool(names & {"hint_s", "hint_t", "hint_u"}),
                "map_idx": "map_idx" in names}
    extra = {}
    if stream == "c15" and isinstance(abstract, dict) and abstract.get("dt") == "enum" and abstract.get("vf"):
        # a tuple variant hinted `as {}` with a payload field whose only instruction is an expression (accepted for From: "name or an action")
        extra["hint_s_expr_only"] = any(any(x["n"] == "type_hint_s" for x in m) and any(any(y["n"] == "map_action" for y in f) for f in vf)
                                        for m, vf in zip(abstract["ms"], abstract["vf"]))
    return {**extra, "dt": "enum" if re.search(r"\benum\b", src) else "struct", "kind": "ie" if "into_existing" in src else "other", "stream": stream,
            "shape": "tuple" if re.search(r"\bstruct \w+(<[^>]*>)?\s*\(", src) else "named",
            "bare_parent": bool(re.search(r"#\[parent\]|#\[parent\(\w+\)\]", src)), "ghosts": "ghosts" in src}


def run(tier, seed):
    ctx = core.Ctx("C17", tier, seed, LEVEL)
    srcs = streams.exploration_sources(ctx, tier, seed, caps={"arms": 20000, "c15": 8000}, which=("arms", "c15", "c04", "c08", "repo"))
    from checks import c15, c04
    for c in streams.tlc_cases(ctx, "MC_C04", "MC_C04_forms", 4000 if tier == "quick" else None, seed):      # qualified / generic counterpart and error types
        srcs.append(("c04forms", c, c04.concretize(c, "struct")))
    for c in streams.tlc_cases(ctx, "MC_C15", "MC_C06_q", 8000 if tier == "quick" else None, seed):
        srcs.append(("c06", c["in"], c15.concretize(c["in"], True)))
    inp = [{"id": i, "src": s[2]} for i, s in enumerate(srcs)]
    res = core.expand(inp, "syn1")
    acc = [(i, rr["runs"][0]) for i, rr in enumerate(res) if rr["runs"][0]["verdict"] == "ok"]
    pres = core.project([{"id": i, "runs": [r]} for i, r in acc])
    trace = [shape_record(pr["id"], pr["runs"][0], srcs[pr["id"]][2]) for pr in pres]
    ok, mism, st = core.judge("Trace_C17", trace, tag="c17", timeout=3000)
    ctx.add_tlc(st)
    outs = {i: r.get("out", "") for i, r in acc}
    for m in mism:
        stream, abstract, src = srcs[m["id"]]
        ctx.violation(dialect_cell(stream, abstract, src), m["symptom"], {"stream": stream, "src": src, "out": outs[m["id"]][:1500]})
    ctx.cov["evaluations"] = len(trace)
    ctx.cov["traces_validated_against_impl"] = ok
    ctx.cov["inputs"] = len(inp)
    ctx.cov["accepted_inputs"] = len(acc)
    ctx.cov["impl_items_judged"] = sum(len(t["impls"]) for t in trace)
    ctx.cov["distinct_nontrivial"] = len({srcs[i][2] for i, _ in acc})
    ctx.cov["rule"] = ("every input of the arm-coverage product (type kind x shape x hint x kind x parameter x instruction sets), of the C15 / C04 / C06 streams and of "
                       "the repository that the real derive ACCEPTS; its output must parse as a file of items (syn 2, full) and TLC judges each item: one of the six "
                       "conversion traits by its documented path, exactly one method of the documented name and signature, `type Error` iff fallible, nothing else. "
                       "Token soup is excluded: the statement presupposes well-formed embedded fragments.")
    ctx.cov["exhaustive"] = tier != "quick"
    for t in trace[50:52]:
        ctx.sample({"src": srcs[t["id"]][2], "items": [{"path": im["path"], "fn": im["fn"], "inputs": im["inputs"], "output": im["output"]} for im in t["impls"][:2]]})

    def corrupt(bad):
        for b in bad:
            for im in b["impls"]:
                if im["fn"] == "from":
                    im["fn"] = "into"
                    return True
        return False
    core.canary(ctx, "C17 (method name altered)", "Trace_C17", [t for t in trace if any(im["fn"] == "from" for im in t["impls"])][:20], corrupt)
    return ctx.finish()
