"""C05 -- the most specific applicable member instruction wins; others never interfere (DESIGN 7/C05)."""
import json
import re

import core
import streams

LEVEL = "model_checking"
TYPE_ATTRS = ("#[map(A)] #[into_existing(A)] #[try_map(A, Er)] #[try_into_existing(A, Er)] "
              "#[map(B)] #[into_existing(B)] #[try_map(B, Er)] #[try_into_existing(B, Er)]")
KOF = {("From", False): "FO", ("From", True): "FR", ("TryFrom", False): "FO", ("TryFrom", True): "FR",
       ("Into", False): "OI", ("Into", True): "RI", ("TryInto", False): "OI", ("TryInto", True): "RI",
       ("IntoExisting", False): "OIE", ("IntoExisting", True): "RIE", ("TryIntoExisting", False): "OIE", ("TryIntoExisting", True): "RIE"}


def concretize(instrs):
    attrs = []
    for i, x in enumerate(instrs, 1):
        cp = "" if x["cp"] == "-" else x["cp"] + "| "
        if x["n"].startswith("ghost"):
            a = f'{x["n"]}({cp}{{gh{i}()}})'
        else:
            a = f'{x["n"]}({cp}mk{i}, tg{i}(~))'
        attrs.append(f"#[o2o({a})]")          # ghost_owned / ghost_ref have no bare form: one spelling for all
    return f'{TYPE_ATTRS} struct S {{ {" ".join(attrs)} a: V }}'


def impls_of(run):
    """(k, f, cp) -> (marker seen, impl text)"""
    out = {}
    if run["verdict"] != "ok" or run["proj"]["parse"] != "ok":
        return None
    for im, h in zip(run["proj"]["impls"], streams.impl_headers(run)):
        k = KOF[(h["trait"], h["byref"])]
        f = h["trait"].startswith("Try")
        body = im["fns"][0]["body"] if im["fns"] else ""
        mk = re.findall(r"\bmk(\d+)\b", body)
        tg = re.findall(r"\btg(\d+)\b", body)
        gh = re.findall(r"\bgh(\d+)\b", body)
        ids = set(mk) | set(tg)
        if gh and not ids:
            seen = "g" + gh[0] if len(set(gh)) == 1 else "multi"
        elif ids and not gh:
            # both markers of the instruction must be present: the rename and the expression
            seen = ("m" + sorted(ids)[0]) if (len(ids) == 1 and set(mk) == set(tg)) else "multi" + "".join(sorted(ids))
        elif ids and gh:
            seen = "multi"
        elif re.search(r"(self|value) \. a\b", body):
            seen = "plain"
        else:
            seen = "skip"
        out[(k, f, h["cp"])] = (seen, im["str"])
    return out


def run(tier, seed):
    ctx = core.Ctx("C05", tier, seed, LEVEL)
    cfg = "MC_C05_quick" if tier == "quick" else "MC_C05_thorough"
    r = core.tlc("MC_C05", cfg, workers=12, timeout=3000)
    if not r.ok:
        raise core.ToolError(f"MC_C05/{cfg}: design-level theorem violated or TLC error:\n{r.stdout[-3000:]}")
    ctx.add_tlc(r)
    cases = [c["instrs"] for c in r.cases]
    index = {json.dumps(c, sort_keys=True): i for i, c in enumerate(cases)}
    inp = [{"id": i, "src": concretize(c)} for i, c in enumerate(cases)]
    # in chunks, keeping per impl only the marker and a digest of its text (24 impls per case: the thorough tier does not fit in memory otherwise)
    import hashlib
    proj, rejected = [None] * len(cases), {}
    for lo in range(0, len(inp), 20000):
        part = inp[lo:lo + 20000]
        for x, rr in zip(part, core.project(core.expand(part, "syn1"))):
            pr = impls_of(rr["runs"][0])
            if pr is None:
                rejected[x["id"]] = {k: v for k, v in rr["runs"][0].items() if k in ("verdict", "msgs", "site", "msg")}
            else:
                proj[x["id"]] = {key: (seen, hashlib.md5(txt.encode()).hexdigest()[:16]) for key, (seen, txt) in pr.items()}
    trace = []
    for i, c in enumerate(cases):
        p = proj[i]
        if p is None:
            ctx.violation({"len": len(c)}, "rejected_or_unparseable", {"src": inp[i]["src"], "run": rejected.get(i)})
            continue
        pre = proj[index[json.dumps(c[:-1], sort_keys=True)]] if c else None
        obs = []
        for (k, f, cp), (seen, txt) in sorted(p.items()):
            same = bool(pre) and (k, f, cp) in pre and pre[(k, f, cp)][1] == txt
            obs.append({"k": k, "f": f, "cp": cp, "seen": seen, "same": same})
        trace.append({"id": i, "instrs": c, "obs": obs})
    ok, mism, st = core.judge("Trace_C05", trace, tag="c05", timeout=3000)
    ctx.add_tlc(st)
    for m in mism:
        names = sorted({x["n"] for x in m["instrs"]})
        ctx.violation({"len": len(m["instrs"]), "ghost_involved": any(n.startswith("ghost") for n in names)}, m["symptom"],
                      {"instrs": m["instrs"], "src": inp[m["id"]]["src"], "bad": m["bad"][:6]})
    # the third place member instructions stand: in front of the child fields of a parameterised #[parent(..)], where the ownership-specific pair
    # [owned_into(..)] [ref_into(..)] (item `kexpr`) makes the chosen instruction observable in executed conversions (into_existing must fall back
    # on the `into` instruction of ITS ownership); the parent stream is shared with C03 / C07 / C08
    from checks import parent_stream as ps
    pcases, pobs, pfail, pstats = ps.run_stream(ctx, tier)
    keep = {i for i, c in enumerate(pcases) if "kexpr" in c["bit"]}
    precs = [r for r in ps.records(pcases, pobs, pfail, {"leaf"}) if r["case"] in keep]
    pok = ps.judge_into(ctx, pcases, precs, "c05-parent")
    ctx.cov["parent_child_field_evaluations"] = len(precs)
    ctx.cov["evaluations"] = sum(len(t["obs"]) for t in trace) + len(precs)
    ctx.cov["traces_validated_against_impl"] = ok + pok
    ctx.cov["instruction_lists"] = len(cases)
    ctx.cov["distinct_nontrivial"] = len([c for c in cases if c])
    ctx.cov["rule"] = ("TLC enumerates every list of <= MaxLen member instructions over (21 mapping names + ghost/ghost_owned/ghost_ref) x {default, A, B} "
                       "and checks NonInterference and OtherCounterpartIrrelevant on the lookup specification; each list is put on one member of a type "
                       "that defines all 12 conversions for A and for B (24 impls), every instruction carrying unique markers; one evaluation = one impl: "
                       "the marker found in it must be the one of Applicable(list, kind, fallibility, counterpart), and the impl must be token-identical "
                       "to the one generated without the list's last instruction whenever that instruction is not the one chosen.  Non-trivial = non-empty list.")
    ctx.cov["exhaustive"] = True
    for t in trace[5:8]:
        ctx.sample({"instrs": t["instrs"], "src": inp[t["id"]]["src"], "obs": t["obs"][:3]})

    def corrupt(bad):
        for b in bad:
            for o in b["obs"]:
                if o["seen"].startswith("m"):
                    o["seen"] = "plain"
                    return True
        return False
    core.canary(ctx, "C05 (marker of the effective instruction removed)", "Trace_C05", [t for t in trace if t["instrs"]][:40], corrupt)
    return ctx.finish()
