"""C14 -- repeat / skip_repeat / stop_repeat equal writing the instructions out (DESIGN 7/C14).
TLC checks that the folds as implemented refine the declarative requirement on every sequence in bounds, chooses what to copy for the written-out
form, and judges (a) token identity of the real expansions of input and written-out input, (b) the merged instruction sets recorded by the hook."""
import json
import re

import core

LEVEL = "model_checking"


def m_instr(c, t):
    # every instruction carries the number of the member that wrote it (a marker the hook dump shows again)
    return {"map": f"#[map(tg{t}(~))]", "child": f"#[child(p{t})]", "ghost": f"#[o2o(ghost_owned({{gh{t}()}}))]", "parent": f"#[parent(q{t},)]"}[c]


def m_attrs(m):
    a = []
    if m["stop"]:
        a.append("#[o2o(stop_repeat)]")
    if m["rep"]:
        a.append("#[o2o(repeat(" + ", ".join(sorted(m["cats"])) + "))]" if m["cats"] else "#[o2o(repeat)]")
    if m["skip"]:
        a.append("#[o2o(skip_repeat)]")
    return a


HEAD_M = "#[from_owned(D)] #[from_ref(D)]"


def m_orig(c):
    fs = [" ".join(m_attrs(m) + [m_instr(x, j) for x in sorted(m["own"])]) + f" s{j}: V," for j, m in enumerate(c["ms"], 1)]
    return f"{HEAD_M} struct S {{ {' '.join(fs)} }}"


def m_unrolled(c):
    fs = []
    for j, m in enumerate(c["ms"], 1):
        own = [m_instr(x, j) for x in sorted(m["own"])]
        cop = [m_instr(e["c"], e["t"]) for e in sorted(c["eff"][j - 1], key=lambda e: (e["c"], e["t"])) if e["t"] != j]
        fs.append(" ".join(own + cop) + f" s{j}: V,")
    return f"{HEAD_M} struct S {{ {' '.join(fs)} }}"


def m_merged(dump):
    out = []
    for mem in dump["members"]:
        ps = []
        for x in mem["map"]:
            t = [tok[1] for tok in x["e"] if isinstance(tok, list) and tok[0] == "i" and tok[1].startswith("tg")] if x["e"] != "-" else []
            ps.append({"c": "map", "t": int(t[0][2:]) if t else 0})
        for x in mem["child"]:
            ps.append({"c": "child", "t": int(x["path"][0][1:])})
        for x in mem["ghost"]:
            t = [tok[1] for tok in x["e"] if isinstance(tok, list) and tok[0] == "i" and tok[1].startswith("gh")] if x["e"] != "-" else []
            ps.append({"c": "ghost", "t": int(t[0][2:]) if t else 0})
        for x in mem["parent"]:
            f = x["fields"][0]["this"] if x["fields"] != "-" and x["fields"] else "q0"
            ps.append({"c": "parent", "t": int(f[1:]) if re.fullmatch(r"q\d+", f) else 0})
        for x in mem.get("hint", []):
            ps.append({"c": "type_hint", "t": int(x["cp"][1:]) if re.fullmatch(r"D\d+", x["cp"]) else 0})
        out.append(ps)
    return out


# ---- enum variants (variant-level repeat): the origin of a type_hint is the counterpart it is dedicated to, of a rename the name ----
def n_instr(c, t):
    return {"map": f"#[map(W{t})]", "type_hint": f"#[type_hint(D{t}| as ())]", "ghost": f"#[ghost({{gh{t}()}})]"}[c]


def n_head(c):
    return " ".join(f"#[map_owned(D{j})]" for j in range(1, len(c["ms"]) + 1))


def n_orig(c):
    vs = [" ".join(m_attrs(m) + [n_instr(x, j) for x in sorted(m["own"])]) + f" V{j} {{ a: V }}," for j, m in enumerate(c["ms"], 1)]
    return f"{n_head(c)} enum S {{ {' '.join(vs)} }}"


def n_unrolled(c):
    vs = []
    for j, m in enumerate(c["ms"], 1):
        own = [n_instr(x, j) for x in sorted(m["own"])]
        cop = [n_instr(e["c"], e["t"]) for e in sorted(c["eff"][j - 1], key=lambda e: (e["c"], e["t"])) if e["t"] != j]
        vs.append(" ".join(own + cop) + f" V{j} {{ a: V }},")
    return f"{n_head(c)} enum S {{ {' '.join(vs)} }}"


def n_merged(dump):
    out = []
    for mem in dump["members"]:
        ps = []
        for x in mem["map"]:
            ps.append({"c": "map", "t": int(x["m"][1:]) if re.fullmatch(r"W\d+", x["m"]) else 0})
        for x in mem["ghost"]:
            t = [tok[1] for tok in x["e"] if isinstance(tok, list) and tok[0] == "i" and tok[1].startswith("gh")] if x["e"] != "-" else []
            ps.append({"c": "ghost", "t": int(t[0][2:]) if t else 0})
        for x in mem["hint"]:
            ps.append({"c": "type_hint", "t": int(x["cp"][1:]) if re.fullmatch(r"D\d+", x["cp"]) else 0})
        out.append(ps)
    return out


def v_field_attrs(f, j):
    a = []
    if f["stop"]:
        a.append("#[o2o(stop_repeat)]")
    if f["rep"]:
        inner = (["permeate()"] if f["perm"] else []) + sorted(f["cats"])
        a.append("#[o2o(repeat(" + ", ".join(inner) + "))]" if inner else "#[o2o(repeat)]")
    if f["skip"]:
        a.append("#[o2o(skip_repeat)]")
    return a


def v_enum(c, unrolled):
    """enum whose variants are tuple variants; field j of the flat list is a payload field of variant fs[j].v"""
    variants = {}
    for j, f in enumerate(c["fs"], 1):
        if unrolled:
            # the member's own instructions first, the repeated ones after them (a repeated instruction never overrides an own one)
            attrs = [m_instr(x, j) for x in sorted(f["own"])] + [m_instr(e["c"], e["t"]) for e in sorted(c["eff"][j - 1], key=lambda e: (e["c"], e["t"])) if e["t"] != j]
        else:
            attrs = v_field_attrs(f, j) + [m_instr(x, j) for x in sorted(f["own"])]
        variants.setdefault(f["v"], []).append(" ".join(attrs) + " V,")
    vstop = {f["v"] for f in c["fs"] if f.get("vst")}
    # a variant-level stop_repeat is kept in the written-out form too: it has nothing to stop there and must change nothing
    body = " ".join(("#[o2o(stop_repeat)] " if v in vstop else "") + f"V{v}({' '.join(fs)})," for v, fs in sorted(variants.items()))
    return f"#[from_owned(D)] #[from_ref(D)] enum S {{ {body} }}"


def v_merged(dump):
    out = []
    for var in dump["members"]:
        for mem in var["fields"]:
            out += m_merged({"members": [mem]})
    return out


T_PARAM = {"vars": lambda t: f"vars(v: {{tg{t}()}})", "update": lambda t: f"..upd{t}()", "quick_return": lambda t: f"return r{t}()", "default_case": lambda t: f"_ => d{t}()"}
ORDER = ["vars", "update", "quick_return", "default_case"]
CATNAME = {"vars": "vars", "update": "update", "quick_return": "quick_return", "default_case": "default_case"}


def t_attr(j, t, pairs):
    """pairs: list of (cat, origin) to write as parameters; keyword params first, at most one tail"""
    fall = t["n"].startswith("try_") or "_try_" in t["n"]
    ps = []
    if t.get("stop_w"):
        ps.append("stop_repeat")
    if t.get("rep_w"):
        ps.append("repeat(" + ", ".join(sorted(t["cats"], key=ORDER.index)) + ")")
    if t.get("skip_w"):
        ps.append("skip_repeat")
    for c, o in sorted(pairs, key=lambda p: ORDER.index(p[0])):
        ps.append(T_PARAM[c](o))
    return f'#[{t["n"]}(D{j}{", Er" if fall else ""}{(" | " + ", ".join(ps)) if ps else ""})]'


def t_orig(c):
    a = []
    for j, t in enumerate(c["ts"], 1):
        tt = dict(t, stop_w=t["stop"], rep_w=t["rep"], skip_w=t["skip"])
        a.append(t_attr(j, tt, [(x, j) for x in t["own"]]))
    return " ".join(a) + t_body(c)


def t_body(c):
    # `_ => expr` (default case) exists for enums only
    return " enum S { A, B }" if any("default_case" in t["own"] for t in c["ts"]) else " struct S { a: V }"


def t_unrolled(c):
    a = []
    for j, t in enumerate(c["ts"], 1):
        a.append(t_attr(j, dict(t), [(e["c"], e["t"]) for e in c["eff"][j - 1]]))
    return " ".join(a) + t_body(c)


def t_writable(c):
    tails = lambda ps: sum(1 for p in ps if p != "vars")
    return all(tails([e["c"] for e in eff]) <= 1 for eff in c["eff"]) and all(tails(t["own"]) <= 1 for t in c["ts"])


def t_merged(dump):
    out = []
    key = {"vars": "vars", "update": "upd", "quick_return": "ret", "default_case": "dflt"}
    for tr in dump["traits"]:
        ps = []
        if tr["vars"]:
            t = [tok[1] for tok in tr["vars"][0]["e"] if tok[0] == "i" and tok[1].startswith("tg")]
            ps.append({"c": "vars", "t": int(t[0][2:])})
        for cat, k, pre in (("update", "upd", "upd"), ("quick_return", "ret", "r"), ("default_case", "dflt", "d")):
            if tr[k] != "-":
                t = [tok[1] for tok in tr[k] if tok[0] == "i" and re.fullmatch(pre + r"\d+", tok[1])]
                ps.append({"c": cat, "t": int(t[0][len(pre):]) if t else 0})
        out.append(ps)
    return out


def run(tier, seed):
    ctx = core.Ctx("C14", tier, seed, LEVEL)
    trace, srcs = [], {}
    import streams
    plan = ([("member", "MC_C14_mq", 20000), ("trait", "MC_C14_tq", None), ("trait", "MC_C14_tq2", None), ("trait", "MC_C14_tq3", None), ("trait", "MC_C14_tq4", 20000), ("vfield", "MC_C14_vq", 20000), ("variant", "MC_C14_nq", 16000)] if tier == "quick"
            else [("member", "MC_C14_mq", None), ("member", "MC_C14_mt", None), ("member", "MC_C14_mt4", None), ("trait", "MC_C14_tq", None), ("trait", "MC_C14_tq2", None), ("trait", "MC_C14_tq3", None),
                  ("trait", "MC_C14_tt", None), ("trait", "MC_C14_tt2", None), ("trait", "MC_C14_tq4", None), ("vfield", "MC_C14_vq", 300000), ("vfield", "MC_C14_vt", 300000),
                  ("variant", "MC_C14_nq", None), ("variant", "MC_C14_nt", None)])
    for lvl, cfg, cap in plan:
        # TLC checks FoldOk (the fold as implemented refines the declarative requirement) on every sequence while it enumerates them; the
        # enumeration depends on the specification only and is cached by its content hash
        cases = streams.tlc_cases(ctx, "MC_C14", cfg, cap, seed)
        if lvl == "trait":
            # a tail parameter (`..`, `return`, `_ =>`) swallows the rest of the stream: at most one can be WRITTEN per instruction
            cases = [c for c in cases if all(sum(1 for p in t["own"] if p != "vars") <= 1 for t in c["ts"])]
        orig = {"member": m_orig, "variant": n_orig, "vfield": lambda c: v_enum(c, False), "trait": t_orig}[lvl]
        unr = {"member": m_unrolled, "variant": n_unrolled, "vfield": lambda c: v_enum(c, True), "trait": t_unrolled}[lvl]
        inp = []
        for i, c in enumerate(cases):
            wr = True if lvl != "trait" else t_writable(c)
            inp.append({"id": i, "srcs": [orig(c), unr(c) if (wr and not c["conflict"]) else orig(c)]})
        for lo in range(0, len(inp), 20000):               # in chunks: the hook dumps of a whole thorough configuration do not fit in memory
            res = core.expand(inp[lo:lo + 20000], "syn1", events=True)
            for i, (c, rr) in enumerate(zip(cases[lo:lo + 20000], res), lo):
                a, b = rr["runs"]
                dump = [e for e in a.get("events", []) if e.get("ev") == "parsed"]
                merged = []
                if dump:
                    merged = {"member": m_merged, "variant": n_merged, "vfield": v_merged, "trait": t_merged}[lvl](dump[0])
                rid = f"{cfg}:{i}"
                srcs[rid] = inp[i]["srcs"]
                trace.append({"id": rid, "lvl": "member" if lvl == "variant" else lvl, "stream": lvl, "s": c["ms"] if lvl in ("member", "variant") else c["fs"] if lvl == "vfield" else c["ts"],
                              "v1": a["verdict"], "v2": b["verdict"], "same": a.get("out") == b.get("out"), "merged": merged,
                              "writable": (True if lvl != "trait" else t_writable(c))})
    stream_of = {t["id"]: t["stream"] for t in trace}
    ok, mism, st = core.judge("Trace_C14", trace, tag="c14", timeout=3000)
    ctx.add_tlc(st)
    for m in mism:
        ctx.violation({"level": stream_of.get(m["id"], m["lvl"]), "conflict": m["conflict"]}, m["symptom"], {"srcs": srcs[m["id"]], "want": m["want"], "merged": m["merged"]})
    ctx.cov["evaluations"] = len(trace)
    ctx.cov["traces_validated_against_impl"] = ok
    ctx.cov["member_sequences"] = sum(1 for t in trace if t["stream"] == "member")
    ctx.cov["variant_sequences"] = sum(1 for t in trace if t["stream"] == "variant")
    ctx.cov["trait_sequences"] = sum(1 for t in trace if t["lvl"] == "trait")
    ctx.cov["variant_field_sequences"] = sum(1 for t in trace if t["lvl"] == "vfield")
    ctx.cov["conflicting_sequences"] = sum(1 for t in trace if t["v1"] == "err")
    ctx.cov["distinct_nontrivial"] = sum(1 for t in trace if any(x["rep"] for x in t["s"]))
    ctx.cov["rule"] = ("TLC enumerates every sequence of <= MaxLen members (own instruction categories x repeat with / without category filter x stop_repeat x "
                       "skip_repeat) and every sequence of <= MaxLen trait instructions of two names differing only in fallibility (own parameters x repeat(...) x "
                       "stop_repeat x skip_repeat), proves on each that the fold as implemented refines the declarative unrolling, and chooses what to copy; "
                       "the real derive expands the input and its written-out form: token identity, the merged instruction sets recorded by the hook, and "
                       "rejection of conflicting repeats are judged by TLC.  Non-trivial = the sequence contains a repeat.")
    ctx.cov["exhaustive"] = True
    for t in [t for t in trace if any(x["rep"] for x in t["s"]) and t["v1"] == "ok"][:2]:
        ctx.sample({"level": t["lvl"], "input": srcs[t["id"]][0], "written_out": srcs[t["id"]][1], "token_identical": t["same"]})

    def corrupt(bad):
        for b in bad:
            for j, m in enumerate(b["merged"]):
                if len(m) >= 2:
                    b["merged"][j] = m[:-1]
                    return True
        return False
    core.canary(ctx, "C14 (one copied instruction dropped from the recorded merged set)", "Trace_C14",
                [t for t in trace if t["v1"] == "ok" and any(len(m) >= 2 for m in t["merged"])][:30], corrupt)
    return ctx.finish()
