"""C20 -- generated code works in #![no_std]: only core, o2o::traits and user names (DESIGN 7/C20).
(i) vocabulary: every path of every generated item of every accepted input (TLC-generated streams + repository), judged by TLC;
(ii) a batch of every conversion kind and dialect compiled inside a generated #![no_std] library crate with the real proc-macro."""
import json
import re
import shutil

import core
import streams

LEVEL = "model_checking"
IDENT = re.compile(r"[A-Za-z_][A-Za-z0-9_]*")


def path_rec(text, src):
    lead = text.startswith("::")
    segs = [s for s in text.split("::") if s]
    return {"text": text, "lead": lead, "segs": segs or ["?"], "payload_binding": bool(re.fullmatch(r"f\d+", text)), "user_wrote_leading": lead and ("::" + segs[0]) in src.replace(" ", "") if segs else False}


NOSTD_PRELUDE = r'''#![no_std]
#![allow(dead_code, unused, non_snake_case, non_camel_case_types, unreachable_patterns, unreachable_code)]
use o2o_macros::o2o; use o2o::traits::{IntoExisting, TryIntoExisting};
#[derive(Clone, Copy, PartialEq, Default, Debug)] pub struct V(pub usize);
#[derive(Debug, Clone, PartialEq)] pub struct Er(pub usize);
pub trait Leaf { fn id(&self) -> usize; }
impl Leaf for V { fn id(&self) -> usize { self.0 } }
impl Leaf for &V { fn id(&self) -> usize { self.0 } }
impl Leaf for i32 { fn id(&self) -> usize { *self as usize } }
impl Leaf for i64 { fn id(&self) -> usize { *self as usize } }
impl Leaf for &i32 { fn id(&self) -> usize { **self as usize } }
impl Leaf for &i64 { fn id(&self) -> usize { **self as usize } }
pub fn tg<T: Leaf>(k: usize, v: T) -> V { V(v.id() * 31 + k) }
pub fn pair<A: Leaf, B: Leaf>(a: A, b: B) -> V { V(a.id() * 7 + b.id()) }
pub fn gh(k: usize) -> V { V(k) } pub fn gx(k: usize) -> V { V(k) } pub fn gy(k: usize) -> V { V(k) } pub fn go(k: usize) -> V { V(k) } pub fn gr(k: usize) -> V { V(k) }
pub fn ev<T: Leaf>(k: usize, v: T) -> V { V(v.id() + k) }
pub fn chk<T: Leaf>(k: usize, v: T) -> Result<V, Er> { if v.id() == 0 { Err(Er(k)) } else { Ok(tg(k, v)) } }
'''


def nostd_batch(ctx, tier):
    """type definitions (derives only, no std-using test driver) of the struct and flatten streams, compiled in a #![no_std] lib"""
    from checks import struct_stream as ss
    from conc_struct import StructCase
    from conc_flat import FlatCase
    d = core.HARNESS / "nostd"
    (d / "src").mkdir(parents=True, exist_ok=True)
    (d / ".cargo").mkdir(exist_ok=True)
    (d / "Cargo.toml").write_text('[package]\nname = "nostd"\nversion = "0.0.0"\nedition = "2021"\n[workspace]\n[lib]\n[dependencies]\n'
                                  f'o2o-macros = {{ path = "{core.REPO}/o2o-macros" }}\no2o = {{ path = "{core.REPO}", default-features = false }}\n'
                                  '[profile.dev]\ndebug = false\nincremental = false\n')
    (d / ".cargo" / "config.toml").write_text('[net]\noffline = true\n[build]\ntarget-dir = "target"\n')
    if not (d / "Cargo.lock").exists():
        shutil.copy(core.REPO / "Cargo.lock", d / "Cargo.lock")
    mods = []
    cases = ss.generate(ctx, "MC_Struct_c01q" if tier == "quick" else "MC_Struct_c01t")
    obs, fail, _ = ss.observe(ctx, cases, "nostd")
    smods = []
    for i, c in enumerate(cases):
        if i in fail or c["vars"] or c["upd"] or c["ret"]:
            continue
        smods.append((f"s{i}", StructCase(i, c).items_only()))
    if len(smods) > 4000:
        # one library crate cannot be sharded: a seeded sample keeps rustc within memory in the thorough tier
        import random
        smods = random.Random(1).sample(smods, 4000)
        ctx.notes.append("no_std batch: seeded sample of 4000 struct-stream cases")
    mods += smods
    r = core.tlc("MC_C03", "MC_C03_q1", workers=8)
    ctx.add_tlc(r)
    for i, c in enumerate(r.cases[: (300 if tier == "quick" else 100000)]):
        fc = FlatCase(i, c)
        mods.append((f"f{i}", "\n".join(fc.defs() + [fc.sdef("S", False), fc.sdef("Sf", True)])))
    body = NOSTD_PRELUDE + "\n".join(f"pub mod {n} {{ use super::*;\n{src}\n}}" for n, src in mods)
    (d / "src" / "lib.rs").write_text(body)
    p = core.run("cargo check --offline --message-format=short 2>&1", cwd=d, timeout=3000)
    errs = [l for l in p.stdout.splitlines() if re.match(r"^src/lib\.rs:\d+:\d+: error", l)]
    return len(mods), errs, p.returncode, p.stdout[-1500:]


def run(tier, seed):
    ctx = core.Ctx("C20", tier, seed, LEVEL)
    srcs = streams.exploration_sources(ctx, tier, seed, caps={"arms": 20000, "c15": 8000}, which=("arms", "c15", "c04", "c08", "repo"))
    inp = [{"id": i, "src": s[2]} for i, s in enumerate(srcs)]
    res = core.expand(inp, "syn1")
    acc = [(i, rr["runs"][0]) for i, rr in enumerate(res) if rr["runs"][0]["verdict"] == "ok"]
    pres = core.project([{"id": i, "runs": [r]} for i, r in acc])
    trace = []
    unparseable = 0
    for pr in pres:
        p = pr["runs"][0]["proj"]
        if p["parse"] != "ok":
            unparseable += 1        # C17's violation; no item to read a vocabulary from
            continue
        src = srcs[pr["id"]][2]
        trace.append({"id": pr["id"], "input_idents": sorted(set(IDENT.findall(src))),
                      "impls": [{"paths": [path_rec(t, src) for t in im["all_paths"]], "bound": im["all_bound"]} for im in p["impls"]]})
    ok, mism, st = core.judge("Trace_C20", trace, tag="c20", timeout=3000)
    ctx.add_tlc(st)
    for m in mism:
        stream, abstract, src = srcs[m["id"]]
        ctx.violation({"paths": ",".join(sorted(m["bad"]))[:80]}, m["symptom"], {"stream": stream, "src": src, "bad_paths": m["bad"]})
    n, errs, rc, tail = nostd_batch(ctx, tier)
    if errs:
        for e in errs[:20]:
            ctx.violation({"stream": "no_std_batch"}, "does_not_compile_in_no_std", {"error": e})
    elif rc != 0:
        raise core.ToolError("cargo check of the no_std batch failed without a mappable error:\n" + tail)
    ctx.cov["evaluations"] = len(trace) + n
    ctx.cov["traces_validated_against_impl"] = ok
    ctx.cov["accepted_inputs_judged"] = len(trace)
    ctx.cov["paths_judged"] = sum(len(im["paths"]) for t in trace for im in t["impls"])
    ctx.cov["unparseable_outputs_left_to_C17"] = unparseable
    ctx.cov["no_std_batch_types"] = n
    ctx.cov["distinct_nontrivial"] = len({srcs[t["id"]][2] for t in trace})
    ctx.cov["rule"] = ("(i) every accepted input of the arm-coverage, C15, C04 streams and the repository: syn collects every path of every generated item and the "
                       "names the item binds; TLC judges each path against the vocabulary (the seven documented library paths, prelude items Ok / "
                       "Default::default / Self, names bound by the item, names occurring in the user's input); std / alloc are singled out.  (ii) the twin types "
                       "of the struct stream and of the flatten stream (all 12 conversion kinds, ghosts, as_type, child paths, fallible `?` sites) are compiled by "
                       "`cargo check` inside a generated #![no_std] library that depends on o2o-macros and on o2o with default-features = false.")
    ctx.cov["exhaustive"] = tier != "quick"
    for t in trace[10:12]:
        ctx.sample({"src": srcs[t["id"]][2], "paths_of_first_item": [p["text"] for p in t["impls"][0]["paths"]] if t["impls"] else []})

    def corrupt(bad):
        for b in bad:
            for im in b["impls"]:
                im["paths"].append(path_rec("std::mem::take", ""))
                return True
        return False
    core.canary(ctx, "C20 (a std path added to one item)", "Trace_C20", [t for t in trace if t["impls"]][:10], corrupt)
    return ctx.finish()
