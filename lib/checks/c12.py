"""C12 -- shortcut instructions equal the basic instructions they abbreviate (DESIGN 7/C12)."""
import json

import core
import rewrite
import streams
from checks import c04, c05

LEVEL = "model_checking"


def conc_member(instrs):
    attrs = []
    for x in instrs:
        i = x["id"]
        cp = "" if x["cp"] == "-" else x["cp"] + "| "
        a = f'{x["n"]}({cp}{{gh{i}()}})' if x["n"].startswith("ghost") else f'{x["n"]}({cp}mk{i}, tg{i}(~))'
        attrs.append(f"#[o2o({a})]")
    return f'{c05.TYPE_ATTRS} struct S {{ {" ".join(attrs)} a: V }}'


PF_NAMES = {"owned_into", "ref_into", "into", "from_owned", "from_ref", "from", "map_owned", "map_ref", "map", "owned_into_existing", "ref_into_existing", "into_existing"}


def conc_pfield(instrs):
    """the same instruction lists in the third place member instructions can stand: in front of a child field of a parameterised #[parent(..)]"""
    attrs = " ".join(f'[{x["n"]}(mk{x["id"]}, tg{x["id"]}(~))]' for x in instrs)
    return f'#[map(A)] #[into_existing(A)] struct S {{ #[parent({attrs} b1, b2)] base: Base, a: V }}'


def run(tier, seed):
    ctx = core.Ctx("C12", tier, seed, LEVEL)
    trace, srcs = [], {}
    for mode, cfg in (("type", "MC_C12_tq" if tier == "quick" else "MC_C12_tt"), ("member", "MC_C12_mq" if tier == "quick" else "MC_C12_mt")):
        # TLC proves the write-out theorem (invariant Equivalent) on every list while it enumerates them (cached by specification hash);
        # the member-level thorough configuration has 943 596 lists: a seeded sample of 300 000 of them is expanded
        allc = streams.tlc_cases(ctx, "MC_C12", cfg, 300000 if cfg == "MC_C12_mt" else None, seed)
        cases = [c for c in allc if c["s"] != c["s2"]]
        inp = []
        for i, c in enumerate(cases):
            if mode == "type":
                for dt in ("struct", "enum"):
                    inp.append({"id": f"{mode}:{i}:{dt}", "srcs": [c04.concretize({"ts": c["s"]}, dt), c04.concretize({"ts": c["s2"]}, dt)]})
            else:
                inp.append({"id": f"{mode}:{i}", "srcs": [conc_member(c["s"]), conc_member(c["s2"])]})
                if all(x["n"] in PF_NAMES and x["cp"] == "-" for x in c["s"]):
                    inp.append({"id": f"pfield:{i}", "srcs": [conc_pfield(c["s"]), conc_pfield(c["s2"])]})
        for lo in range(0, len(inp), 30000):                # in chunks: the thorough tier does not fit in memory otherwise
            part = inp[lo:lo + 30000]
            for x, rr in zip(part, core.project(core.expand(part, "syn1"))):
                srcs[x["id"]] = x["srcs"]
                trace.append(rewrite.relate(x["id"], "bag", rr["runs"][0], rr["runs"][1], loose=True))
    # the syn-level rewriter on existing inputs: repository + accepted arm-coverage inputs
    ex = [s for s in streams.exploration_sources(ctx, tier, seed, caps={"arms": 8000}, which=("arms", "repo"))]
    rw = core.project([{"id": i, "origin": s[0], "src": s[2]} for i, s in enumerate(ex)], mode="rewrite")
    inp = [{"id": f"rw:{i}", "srcs": [r["srcs"][0], r["srcs"][3]]} for i, r in enumerate(rw) if r["srcs"][3] and r["srcs"][3] != r["srcs"][0]]
    res = core.project(core.expand(inp, "syn1"))
    for x, rr in zip(inp, res):
        srcs[x["id"]] = x["srcs"]
        trace.append(rewrite.relate(x["id"], "bag", rr["runs"][0], rr["runs"][1], loose=True))
    ok, mism, st = core.judge("Trace_Rewrite", trace, tag="c12", timeout=3000)
    ctx.add_tlc(st)
    for m in mism:
        stream = m["id"].split(":")[0]
        src = srcs[m["id"]][0]
        is_enum = m["id"].endswith(":enum") or " enum " in (" " + src.replace("]", "] "))
        ctx.violation({"stream": stream, "enum": is_enum, "ghosts_instr": "ghosts" in src}, m["symptom"], {"srcs": srcs[m["id"]]})
    ctx.cov["evaluations"] = len(trace)
    ctx.cov["traces_validated_against_impl"] = ok
    ctx.cov["pairs_by_stream"] = {k: sum(1 for t in trace if t["id"].startswith(k)) for k in ("type", "member", "pfield", "rw")}
    ctx.cov["accepted_pairs"] = sum(1 for t in trace if t["v1"] == "ok")
    ctx.cov["distinct_nontrivial"] = len({json.dumps(srcs[t["id"]]) for t in trace})
    ctx.cov["rule"] = ("TLC enumerates instruction lists (type level: trait instructions over 24 names x 2 counterparts; member level: 24 member-instruction names x "
                       "{default, A, B}; the lists over the 12 names a parameterised #[parent(..)] accepts are also written in front of a parent child field) and each shortcut occurrence to write out (one at a time and all at once), proves the write-out theorem on the specification "
                       "(same impl bag / same effective instruction for every conversion) and the real derive expands both forms: equal multisets of impl token "
                       "strings, same verdict, same diagnostics modulo the instruction name they quote; plus a syn-level write-out of every repository input and of "
                       "arm-coverage inputs.  Non-trivial: the written-out form differs from the input.")
    ctx.cov["exhaustive"] = True
    for t in trace[10:12]:
        ctx.sample({"input": srcs[t["id"]][0], "written_out": srcs[t["id"]][1], "verdicts": [t["v1"], t["v2"]], "impl_bags_equal": t["bag_equal"]})

    def corrupt(bad):
        for b in bad:
            if b["v1"] == "ok":
                b["bag_equal"] = False
                return True
        return False
    core.canary(ctx, "C12 (bags reported unequal)", "Trace_Rewrite", [t for t in trace if t["v1"] == "ok"][:20], corrupt)
    return ctx.finish()
