"""C02 -- enum conversions map each variant and payload field to its designated target (DESIGN 7/C02)."""
import hashlib
import json

import core
import rt
import conc_enum
from checks import struct_stream as ss

LEVEL = "model_checking"


def observe(ctx, cases, tag):
    key = (core.repo_hash(), ss.spec_hash(), hashlib.sha256(json.dumps(cases, sort_keys=True).encode()).hexdigest())
    cf = core.OUT / "cache" / f"enum-{'-'.join(key)[:60]}.json"
    cf.parent.mkdir(parents=True, exist_ok=True)
    if cf.exists():
        d = json.loads(cf.read_text())
        ctx.notes.append(f"enum stream {tag}: cache hit (same /repo sources, spec and harness)")
        return d["obs"], {int(k): v for k, v in d["fail"].items()}, d["stats"]
    programs = {i: conc_enum.program(i, c) for i, c in enumerate(cases)}
    obs, fail, stats = rt.build_and_run(programs, extra_prelude=conc_enum.PRE_EXTRA)
    cf.write_text(json.dumps({"obs": obs, "fail": fail, "stats": stats}))
    return obs, fail, stats


def run(tier, seed):
    ctx = core.Ctx("C02", tier, seed, LEVEL)
    cases = []
    for cfg in (["MC_C02_q", "MC_C02_q2"] if tier == "quick" else ["MC_C02_t", "MC_C02_t2", "MC_C02_t3"]):
        r = core.tlc("MC_C02", cfg, workers=12, timeout=3000)
        if not r.ok:
            raise core.ToolError(f"MC_C02/{cfg}: {r.stdout[-2000:]}")
        ctx.add_tlc(r)
        cases += r.cases
    seen, uniq = set(), []
    for c in cases:
        k = json.dumps(c, sort_keys=True)
        if k not in seen:
            seen.add(k)
            uniq.append(c)
    cases = uniq
    obs, fail, stats = observe(ctx, cases, tier)
    recs = []
    for o in obs:
        r = dict(o)
        r["prop"] = "C02"
        r["in"] = cases[o["case"]]
        recs.append(r)
    for ci, msgs in fail.items():
        recs.append({"prop": "CF", "case": ci, "in": cases[ci], "errors": msgs[:4]})
    ok, mism, st = core.judge("Trace_C02", recs, tag="c02", timeout=3000)
    ctx.add_tlc(st)
    for m in mism:
        sym = m["symptom"]
        if sym == "does_not_compile":
            codes = sorted({e.split("]")[0].split("[")[-1] for e in m["errors"] if "error[" in e})
            sym = "does_not_compile:" + ",".join(codes)
        ctx.violation(dict(m["cell"]), sym, {"case": m["case"], "input": cases[m["case"]], "report": m, "program": conc_enum.program(m["case"], cases[m["case"]])[:5000]})
    ctx.cov["evaluations"] = len(recs)
    ctx.cov["traces_validated_against_impl"] = ok
    ctx.cov["programs"] = len(cases)
    ctx.cov["programs_compiled"] = stats.get("compiled")
    ctx.cov["distinct_nontrivial"] = len({(json.dumps(r["in"], sort_keys=True), r.get("k"), r.get("f"), r.get("vin")) for r in recs if r["prop"] == "C02"})
    ctx.cov["rule"] = ("TLC enumerates enums of <= MaxVariants variants (unit / tuple / struct) x variant items (none, rename, ghost with / without default, type_hint to tuple / "
                       "struct / unit) x payload-field items (none, rename, expression, rename + expression, fields naming each other's positions with / without expression, ghost with default) x variant-level #[ghosts] (counterpart-only payload fields) x enum-level #[ghosts] (counterpart-only variants) x default case; each well-formed enum is compiled with the real "
                       "proc-macro as twin enums (owned, owned fallible, by-reference) against generated counterparts D (exact) and DI (with marker variants that make the "
                       "ghost default and the default case observable); every variant value is converted in every direction and TLC compares the observed (variant, payload "
                       "leaves) with FromExp / IntoExp.  One evaluation = one executed conversion of one variant value.")
    ctx.cov["exhaustive"] = True
    for r in [x for x in recs if x["prop"] == "C02"][:2]:
        ctx.sample({"input": r["in"], "kind": r["k"], "variant_in": r["vin"], "observed": {"variant": r["variant"], "leaves": r["leaves"]}})
    if stats.get("runtime_failures"):
        raise core.ToolError(f"generated programs crashed at run time: {stats['runtime_failures'][:2]}")

    def corrupt(bad):
        for b in bad:
            if b.get("prop") == "C02":
                b["variant"] = b["variant"] + "x"
                return True
        return False
    core.canary(ctx, "C02 (observed variant altered)", "Trace_C02", [r for r in recs if r["prop"] == "C02"], corrupt)
    return ctx.finish()
