"""Printer from abstract enum inputs (spec/O2OEnum.tla) to Rust programs using the real #[derive(o2o)].
Twin deriving enums: E (owned, infallible), Ef (owned, fallible), Er (by-reference: payload fields are cloned as the README prescribes)."""

PRE_EXTRA = r'''
pub fn tg2<T: Leaf>(i: usize, j: usize, v: T) -> V { mk(&format!("t{}_{}({})", i, j, v.sh())) }
pub fn gh2(i: usize, j: usize) -> V { mk(&format!("g{}_{}()", i, j)) }
pub fn vgh(i: usize, k: usize) -> V { mk(&format!("vg{}_{}()", i, k)) }
pub fn obs_e(case: usize, k: &str, fall: bool, vin: usize, res: &str, variant: &str, leaves: Vec<(String, V)>) {
  let o: Vec<String> = leaves.iter().map(|(l,v)| format!("{{\"leaf\":{},\"val\":{}}}", js(l), js(&show(*v)))).collect();
  println!("{{\"case\":{},\"k\":\"{}\",\"f\":{},\"vin\":{},\"res\":\"{}\",\"variant\":{},\"leaves\":[{}]}}", case, k, fall, vin, res, js(variant), o.join(","));
}
'''


def cform(v):
    return {"hint_tuple": "tuple", "hint_tuple_ded": "tuple", "hint_struct": "named", "hint_unit": "unit"}.get(v["it"], v["shape"])


def mapped(v):
    return [j for j, f in enumerate(v["fs"], 1) if f != "ghostd"]


def ownf(v, j):
    return f"x{j}" if v["shape"] == "named" else str(j - 1)


REN = ("ren", "renexpr", "swap", "swapexpr")
SWAP = ("swap", "swapexpr")


def posf(v, j):
    return sum(1 for m in mapped(v) if m < j)


def target(v, j):
    if v["fs"][j - 1] in SWAP:
        ms = mapped(v)
        return ms[len(ms) - 1 - posf(v, j)]
    return j


def cf(v, j):
    if cform(v) == "named":
        return f"r{target(v, j)}" if (v["fs"][j - 1] in REN or v["shape"] == "tuple") else f"x{j}"
    return str(posf(v, target(v, j)))


def vgleaves(v):
    """counterpart-only payload fields supplied by the variant-level #[ghosts(..)]"""
    n = len(mapped(v))
    return [(f"y{k}" if cform(v) == "named" else str(n + k - 1)) for k in range(1, v.get("vg", 0) + 1)]


def vdef(name, form, fields):
    if form == "unit":
        return name
    if not fields:
        return name + "()" if form == "tuple" else name + " {}"
    if form == "named":
        return name + " { " + " ".join(f"{f}: V," for f in fields) + " }"
    return name + "(" + " ".join("V," for f in fields) + ")"


def vpat(ty, name, form, fields, bind):
    if form == "unit":
        return f"{ty}::{name}"
    if form == "named":
        return f"{ty}::{name} {{ " + ", ".join(f"{f}: {bind(f)}" for f in fields) + " }"
    return f"{ty}::{name}(" + ", ".join(bind(f) for f in fields) + ")"


def vlit(ty, name, form, fields, val):
    if form == "unit":
        return f"{ty}::{name}"
    if form == "named":
        return f"{ty}::{name} {{ " + ", ".join(f"{f}: {val(f)}" for f in fields) + " }"
    return f"{ty}::{name}(" + ", ".join(val(f) for f in fields) + ")"


def program(ci, c):
    vs = c["vs"]
    dvars = []

    def variants(byref, fall=False):
        # the fallible twin writes its member instructions with the fallible names (try_map): the lookup must find them for TryFrom / TryInto
        mp = "try_map" if fall else "map"
        out = []
        for i, v in enumerate(vs, 1):
            fa = []
            for j, f in enumerate(v["fs"], 1):
                rn = cf(v, j) if f != "ghostd" else ""
                tail = ".clone()" if byref else ""
                if f == "none":
                    # positional target: an explicit index would be the rename item; a by-reference payload field is cloned (README "Enums")
                    a = f"#[{mp}(~{tail})]" if byref else ""
                elif f in ("ren", "swap"):
                    a = f"#[{mp}({rn}, ~{tail})]" if byref else f"#[{mp}({rn})]"
                elif f == "expr":
                    a = f"#[{mp}(tg2({i},{j}, ~))]"
                elif f in ("renexpr", "swapexpr"):
                    a = f"#[{mp}({rn}, tg2({i},{j}, ~))]"
                else:
                    a = f"#[ghost({{gh2({i},{j})}})]"
                fa.append(a)
            va = {"none": "", "ren": f"#[map(RV{i})]", "vexpr": f"#[into(RV{i}, {{DI::Gd({500 + i})}})] #[from(RV{i}, {{Self::V{i}}})]", "ghostd": f"#[ghost({{DI::Gd({i})}})]", "ghost": "#[ghost]", "hint_tuple": "#[type_hint(as ())]",
                  "hint_struct": "#[type_hint(as {})]", "hint_unit": "#[type_hint(as Unit)]",
                  "hint_tuple_ded": "#[type_hint(as Unit)] #[type_hint(D| as ())] #[type_hint(DI| as ())]"}[v["it"]]
            if v.get("vg", 0):
                entries = ", ".join(f"{l}: {{vgh({i},{k})}}" for k, l in enumerate(vgleaves(v), 1))
                if c.get("vgm", "both") == "flav":
                    va += f" #[o2o(ghosts_ref({entries}))]" if byref else f" #[o2o(ghosts_owned({entries}))]"
                else:
                    va += f" #[ghosts({entries})]"
            if v["shape"] == "unit":
                body = f"V{i}"
            elif v["shape"] == "named":
                body = f"V{i} {{ " + " ".join(f"{a} x{j}: V," for j, a in enumerate(fa, 1)) + " }"
            else:
                body = f"V{i}(" + " ".join(f"{a} V," for a in fa) + ")"
            out.append(f"{va} {body},")
        # marker variants the enum-level #[ghosts(X<j>: {Self::EG<j>})] entries evaluate to (ghosts with a default for Into)
        for j in range(1, c.get("eg", 0) + 1):
            out.append(f"#[ghost({{DI::Gd({900 + j})}})] EG{j},")
        return out
    for i, v in enumerate(vs, 1):
        if v["it"] not in ("ghostd", "ghost"):
            cn = f"RV{i}" if v["it"] in ("ren", "vexpr") else f"V{i}"
            cfs = [cf(v, j) for j in mapped(v)] + vgleaves(v)
            dvars.append((i, cn, cform(v), sorted(cfs, key=int) if cform(v) == "tuple" else cfs))
    neg = c.get("eg", 0)
    xvars = " ".join(f"X{j}," for j in range(1, neg + 1))
    eghosts = ("#[ghosts(" + ", ".join(f"X{j}: {{Self::EG{j}}}" for j in range(1, neg + 1)) + ")] ") if neg else ""
    Ddef = "#[derive(Clone)] pub enum D { " + " ".join(vdef(cn, form, fs) + "," for _, cn, form, fs in dvars) + " " + xvars + " }"
    DIdef = "#[derive(Clone)] pub enum DI { " + " ".join(vdef(cn, form, fs) + "," for _, cn, form, fs in dvars) + " Gd(usize), Dc, }"
    dfl = " | _ => DI::Dc" if c["dflt"] else ""
    dflf = " | _ => Ok(DI::Dc)" if c["dflt"] else ""
    ev, evr, evf = " ".join(variants(False)), " ".join(variants(True)), " ".join(variants(False, True))
    E = f"#[derive(Clone, o2o)] #[from_owned(D)] #[owned_into(DI{dfl})] {eghosts}pub enum E {{ {ev} }}"
    Ef = f"#[derive(Clone, o2o)] #[try_from_owned(D, Er)] #[owned_try_into(DI, Er{dfl})] {eghosts}pub enum Ef {{ {evf} }}"
    Er_ = f"#[derive(Clone, o2o)] #[from_ref(D)] #[ref_into(DI{dfl})] {eghosts}pub enum Er_ {{ {evr} }}"

    def dump_e(ty):
        arms = []
        for i, v in enumerate(vs, 1):
            fs = [ownf(v, j) for j in range(1, len(v["fs"]) + 1)]
            pat = vpat(ty, f"V{i}", v["shape"], fs, lambda f: "b_" + f)
            items = ", ".join('(String::from("%s"), *b_%s)' % (f, f) for f in fs)
            arms.append(f'{pat} => ("V{i}", vec![{items}]),')
        for j in range(1, neg + 1):
            arms.append(f'{ty}::EG{j} => ("EG{j}", vec![]),')
        return f"fn dump_{ty.lower()}(e: &{ty}) -> (&'static str, Vec<(String, V)>) {{ match e {{ {' '.join(arms)} }} }}"

    def dump_di():
        arms = []
        for i, cn, form, fs in dvars:
            pat = vpat("DI", cn, form, fs, lambda f: "b_" + f)
            items = ", ".join('(String::from("%s"), *b_%s)' % (f, f) for f in fs)
            arms.append(f'{pat} => (String::from("{cn}"), vec![{items}]),')
        arms.append('DI::Gd(i) => (format!("GHOSTDEFAULT{}", i), vec![]), DI::Dc => (String::from("DEFAULTCASE"), vec![]),')
        return f"fn dump_di(e: &DI) -> (String, Vec<(String, V)>) {{ match e {{ {' '.join(arms)} }} }}"
    run = []
    for ty, fall, byref in (("E", False, False), ("Ef", True, False), ("Er_", False, True)):
        f = "true" if fall else "false"
        kf, ki = ("FR", "RI") if byref else ("FO", "OI")
        amp = "&" if byref else ""
        for i, cn, form, fs in dvars:
            dl = vlit("D", cn, form, fs, lambda x: f'mk("D.{x}")')
            if fall:
                run.append(f'{{ match <{ty} as TryFrom<D>>::try_from({dl}) {{ Ok(e) => {{ let (vn, lv) = dump_{ty.lower()}(&e); obs_e({ci},"{kf}",{f},{i},"ok",vn,lv); }}, Err(_) => obs_e({ci},"{kf}",{f},{i},"err","-",vec![]) }} }}')
            else:
                run.append(f'{{ let e = <{ty} as From<{amp}D>>::from({amp}{dl}); let (vn, lv) = dump_{ty.lower()}(&e); obs_e({ci},"{kf}",{f},{i},"ok",vn,lv); }}')
        for j in range(1, neg + 1):
            if fall:
                run.append(f'{{ match <{ty} as TryFrom<D>>::try_from(D::X{j}) {{ Ok(e) => {{ let (vn, lv) = dump_{ty.lower()}(&e); obs_e({ci},"{kf}",{f},{100 + j},"ok",vn,lv); }}, Err(_) => obs_e({ci},"{kf}",{f},{100 + j},"err","-",vec![]) }} }}')
            else:
                run.append(f'{{ let e = <{ty} as From<{amp}D>>::from({amp}D::X{j}); let (vn, lv) = dump_{ty.lower()}(&e); obs_e({ci},"{kf}",{f},{100 + j},"ok",vn,lv); }}')
        for i, v in enumerate(vs, 1):
            fs = [ownf(v, j) for j in range(1, len(v["fs"]) + 1)]
            el = vlit(ty, f"V{i}", v["shape"], fs, lambda x: f'mk("S.{x}")')
            if fall:
                run.append(f'{{ match <{ty} as TryInto<DI>>::try_into({el}) {{ Ok(d) => {{ let (vn, lv) = dump_di(&d); obs_e({ci},"{ki}",{f},{i},"ok",&vn,lv); }}, Err(_) => obs_e({ci},"{ki}",{f},{i},"err","-",vec![]) }} }}')
            else:
                run.append(f'{{ let d = <{amp}{ty} as Into<DI>>::into({amp}{el}); let (vn, lv) = dump_di(&d); obs_e({ci},"{ki}",{f},{i},"ok",&vn,lv); }}')
    nl = "\n"
    return (f"pub mod c{ci} {{ use super::*;\n{Ddef}\n{DIdef}\n{E}\n{Ef}\n{Er_}\n{dump_e('E')}\n{dump_e('Ef')}\n{dump_e('Er_')}\n{dump_di()}\n"
            f"pub fn run() {{\n  {(nl + '  ').join(run)}\n}} }}")
