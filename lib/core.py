"""Shared plumbing of the o2o verification framework.

Nothing in this file knows what any property expects.  It runs TLC (as generator, as model
checker, as trace judge), runs the Rust drivers that call the real code, and does the
bookkeeping of the interface (evidence files, VIOLATION / KNOWN-FINDING lines, replay files).
"""
import hashlib
import json
import os
import re
import shutil
import subprocess
import sys
import time
from concurrent.futures import ThreadPoolExecutor
from pathlib import Path

VERIF = Path(__file__).resolve().parent.parent
SPEC = VERIF / "spec"
OUT = VERIF / "out"
HARNESS = VERIF / "harness"
REPO = Path(os.environ.get("O2O_REPO", "/repo"))
KNOWN = VERIF / "known_findings.json"
NCPU = os.cpu_count() or 4

KINDS = ["FO", "FR", "OI", "RI", "OIE", "RIE"]


class ToolError(Exception):
    pass


def log(*a):
    print(*a, file=sys.stderr, flush=True)


def run(cmd, cwd=None, env=None, timeout=None, input=None, check=False):
    e = dict(os.environ)
    e.setdefault("CARGO_NET_OFFLINE", "true")
    e["RUST_BACKTRACE"] = "0"
    if env:
        e.update(env)
    p = subprocess.run(cmd, cwd=cwd, env=e, timeout=timeout, input=input, capture_output=True, text=True,
                       shell=isinstance(cmd, str))
    if check and p.returncode != 0:
        raise ToolError(f"command failed ({p.returncode}): {cmd}\n{p.stdout[-3000:]}\n{p.stderr[-3000:]}")
    return p


# ----------------------------------------------------------------------------------------------
# TLC
# ----------------------------------------------------------------------------------------------
CASE_RE = re.compile(r'^<<"(CASE|MISMATCH|REPLAY|NOTE)", "(.*)">>$')
_ESC = re.compile(r'\\(.)')


def _unescape(s):
    # TLC prints a TLA+ string: backslash escapes for \ and "
    return _ESC.sub(lambda m: {"n": "\n", "t": "\t"}.get(m.group(1), m.group(1)), s)


class TLCResult:
    def __init__(self, stdout, wall):
        self.stdout = stdout
        self.wall = wall
        self.lines = {"CASE": [], "MISMATCH": [], "REPLAY": [], "NOTE": []}
        for ln in stdout.splitlines():
            m = CASE_RE.match(ln)
            if m:
                try:
                    self.lines[m.group(1)].append(json.loads(_unescape(m.group(2))))
                except Exception as ex:  # a malformed line is a tool error, never silently dropped
                    raise ToolError(f"cannot parse TLC line: {ln[:300]} ({ex})")
        m = re.search(r"(\d+) states generated, (\d+) distinct states found", stdout)
        self.generated = int(m.group(1)) if m else 0
        self.distinct = int(m.group(2)) if m else 0
        self.ok = "Model checking completed. No error has been found." in stdout or \
                  ("Finished in" in stdout and "Error:" not in stdout)
        self.invariant_violated = re.findall(r"Invariant (\S+) is violated", stdout)
        self.property_violated = ("Temporal properties were violated" in stdout) or \
                                 bool(re.search(r"Action property \S+ is violated", stdout))
        self.postcondition_failed = "Error: Assumption" in stdout or "POSTCONDITION" in stdout and "violated" in stdout \
                                    or "Postcondition" in stdout and "violated" in stdout
        self.coverage = {}
        for mm in re.finditer(r"<(\w+) line \d+, col \d+ to line \d+, col \d+ of module (\w+)>: (\d+):(\d+)", stdout):
            self.coverage[mm.group(1)] = (int(mm.group(3)), int(mm.group(4)))

    @property
    def cases(self):
        return self.lines["CASE"]

    @property
    def mismatches(self):
        return self.lines["MISMATCH"]


def tlc(module, cfg=None, workers=None, env=None, timeout=1800, simulate=None, coverage=False, metatag=None,
        heap="4g", extra=None, depth_first=False):
    """Run TLC on spec/<module>.tla with spec/<cfg>.cfg.  Returns TLCResult (raises ToolError on tool failure)."""
    cfg = cfg or module
    tag = metatag or f"{module}-{cfg}-{os.getpid()}-{time.time_ns()}"
    meta = OUT / "tlc" / tag
    meta.mkdir(parents=True, exist_ok=True)
    jopts = "-Xss1g"
    if depth_first:
        jopts += " -Dtlc2.tool.queue.IStateQueue=StateDeque"
    cmd = ["java", "-XX:+UseParallelGC", f"-Xmx{heap}", "-cp",
           "/opt/veriftools/tla/tla2tools.jar:/opt/veriftools/tla/CommunityModules-deps.jar", "tlc2.TLC",
           "-workers", str(workers or 1), "-metadir", str(meta), "-cleanup", "-noGenerateSpecTE",
           "-config", f"{cfg}.cfg"]
    if coverage:
        cmd += ["-coverage", "1"]
    if simulate:
        cmd += ["-simulate", simulate]
    if extra:
        cmd += extra
    cmd.append(f"{module}.tla")
    e = {"JAVA_TOOL_OPTIONS": jopts}
    if env:
        e.update(env)
    t = time.time()
    try:
        p = run(cmd, cwd=SPEC, env=e, timeout=timeout)
    except subprocess.TimeoutExpired:
        raise ToolError(f"TLC timed out after {timeout}s: {module}/{cfg}")
    finally:
        shutil.rmtree(meta, ignore_errors=True)
    r = TLCResult(p.stdout, time.time() - t)
    r.returncode = p.returncode
    if ("Parsing or semantic analysis failed" in p.stdout or "TLC threw an unexpected exception" in p.stdout
            or "Error: TLC" in p.stdout and "Invariant" not in p.stdout and "Temporal" not in p.stdout and "Deadlock" not in p.stdout
            or "*** Errors:" in p.stdout):
        raise ToolError(f"TLC failed on {module}/{cfg}:\n{p.stdout[-4000:]}\n{p.stderr[-2000:]}")
    return r


def write_cfg(name, text):
    (SPEC / f"{name}.cfg").write_text(text)


def judge(module, records, cfg=None, shards=None, timeout=1800, tag=None):
    """Trace validation: TLC consumes `records` (list of dicts) through spec/<module>.tla.
    The trace module must define Rec == ndJsonDeserialize(IOEnv.TRACE), print MISMATCH lines for
    records it cannot explain and have POSTCONDITION Accepted (every line consumed).
    Returns (n_consumed_ok, mismatches, tlc_stats)."""
    if not records:
        return 0, [], {"generated": 0, "distinct": 0, "wall": 0.0}
    shards = max(1, min(shards or NCPU, (len(records) + 199) // 200))
    d = OUT / "traces" / (tag or f"{module}-{os.getpid()}")
    if d.exists():
        shutil.rmtree(d)
    d.mkdir(parents=True)
    files = []
    for s in range(shards):
        part = records[s::shards]
        f = d / f"t{s}.ndjson"
        with open(f, "w") as fh:
            for r in part:
                fh.write(json.dumps(r, separators=(",", ":")) + "\n")
        files.append((f, len(part)))

    def one(a):
        f, n = a
        r = tlc(module, cfg or module, workers=1, env={"TRACE": str(f)}, timeout=timeout, depth_first=True,
                metatag=f"{module}-{f.stem}-{os.getpid()}-{time.time_ns()}")
        consumed_all = ("Model checking completed. No error has been found." in r.stdout)
        if not consumed_all:
            raise ToolError(f"judge {module} did not consume its trace {f}:\n{r.stdout[-3000:]}")
        return r

    with ThreadPoolExecutor(max_workers=min(shards, NCPU)) as ex:
        rs = list(ex.map(one, files))
    mism = [m for r in rs for m in r.mismatches]
    stats = {"generated": sum(r.generated for r in rs), "distinct": sum(r.distinct for r in rs),
             "wall": max(r.wall for r in rs)}
    return len(records) - len(mism), mism, stats


def judge_runs(module, runs, shards=None, timeout=1800, tag=None):
    """Trace validation of whole runs: `runs` is a list of event lists (each starting with its reset / input event); runs are never split
    between shards.  The trace module prints MISMATCH for a run it cannot follow and <<"ALLCONSUMED", n>> when it has consumed every record.
    Returns (runs_accepted, mismatches, stats)."""
    if not runs:
        return 0, [], {"generated": 0, "distinct": 0, "wall": 0.0}
    shards = max(1, min(shards or NCPU, (len(runs) + 99) // 100))
    d = OUT / "traces" / (tag or f"{module}-{os.getpid()}")
    if d.exists():
        shutil.rmtree(d)
    d.mkdir(parents=True)
    files = []
    for s in range(shards):
        part = runs[s::shards]
        f = d / f"t{s}.ndjson"
        n = 0
        with open(f, "w") as fh:
            for r in part:
                for e in r:
                    fh.write(json.dumps(e, separators=(",", ":")) + "\n")
                    n += 1
        files.append((f, n))

    def one(a):
        f, n = a
        r = tlc(module, module, workers=1, env={"TRACE": str(f)}, timeout=timeout, depth_first=True,
                metatag=f"{module}-{f.stem}-{os.getpid()}-{time.time_ns()}")
        if "Model checking completed. No error has been found." not in r.stdout or f'<<"ALLCONSUMED", {n}>>' not in r.stdout:
            raise ToolError(f"judge {module} did not consume its trace {f} (or an invariant of the specification failed on a recorded state):\n{r.stdout[-3000:]}")
        return r

    with ThreadPoolExecutor(max_workers=min(shards, NCPU)) as ex:
        rs = list(ex.map(one, files))
    mism = [m for r in rs for m in r.mismatches]
    stats = {"generated": sum(r.generated for r in rs), "distinct": sum(r.distinct for r in rs), "wall": max(r.wall for r in rs)}
    return len(runs) - len({m["id"] for m in mism}), mism, stats


# ----------------------------------------------------------------------------------------------
# Rust drivers (real code)
# ----------------------------------------------------------------------------------------------
_built = {}


def cargo_build(pkg, features=None, target=None, bins=None):
    """Build a harness package against /repo's current working tree (cargo fingerprints decide what is rebuilt)."""
    d = HARNESS / pkg
    key = (pkg, features, target)
    if key in _built:
        return _built[key]
    tdir = d / (target or "target")
    cmd = ["cargo", "build", "--offline", "--target-dir", str(tdir)]
    if features:
        cmd += ["--no-default-features", "--features", features]
    p = run(cmd, cwd=d, timeout=1800)
    if p.returncode != 0:
        raise ToolError(f"cargo build of harness/{pkg} failed (does /repo still compile?):\n{p.stderr[-4000:]}")
    _built[key] = tdir / "debug"
    return _built[key]


def conf_bin(backend="syn1"):
    return cargo_build("conf", features=backend, target=f"target-{backend}") / "conf"


def proj_bin():
    return cargo_build("proj") / "proj"


def _run_lines(binpath, args, lines, nproc=None, timeout=1800):
    """Feed ndjson lines to a driver, sharded over processes, return output lines in input order of shards."""
    nproc = max(1, min(nproc or NCPU, (len(lines) + 499) // 500))
    parts = [lines[i::nproc] for i in range(nproc)]

    def one(part):
        p = run([str(binpath)] + args, input="\n".join(part) + "\n", timeout=timeout)
        if p.returncode != 0:
            raise ToolError(f"driver {binpath} failed: {p.stderr[-2000:]}")
        return [json.loads(l) for l in p.stdout.splitlines() if l.strip()]

    with ThreadPoolExecutor(max_workers=nproc) as ex:
        outs = list(ex.map(one, parts))
    res = [None] * len(lines)
    for i, o in enumerate(outs):
        if len(o) != len(parts[i]):
            raise ToolError(f"driver {binpath} returned {len(o)} lines for {len(parts[i])} inputs")
        for j, r in enumerate(o):
            res[i + j * nproc] = r
    return res


def expand(cases, backend="syn1", tokens=False, repeat=1, events=False, nproc=None):
    """cases: list of {"id":…, "src": str} or {"id":…, "srcs": [str]}.  Calls the real o2o_impl::expand::derive
    in-process (catch_unwind) and returns one record per case: {"id","backend","runs":[{verdict,…}]}."""
    args = []
    if tokens:
        args.append("--tokens")
    if events:
        args.append("--events")
    if repeat != 1:
        args += ["--repeat", str(repeat)]
    lines = [json.dumps(c, separators=(",", ":")) for c in cases]
    if os.environ.get("O2O_INPUT_LOG") and backend == "syn1":
        # development aid (bin/coverage): keep every source text handed to the real derive, to measure which lines of o2o-impl the checks execute
        with open(os.environ["O2O_INPUT_LOG"], "a") as fh:
            fh.write("\n".join(lines) + "\n")
    return _run_lines(conf_bin(backend), args, lines, nproc=nproc)


def project(records, nproc=None, mode="proj"):
    lines = [json.dumps(c, separators=(",", ":")) for c in records]
    return _run_lines(proj_bin(), [mode], lines, nproc=nproc)


def repo_hash():
    """Content hash of what the checks rebuild from (sources and manifests of /repo)."""
    h = hashlib.sha256()
    for base in ["o2o-impl/src", "o2o-macros/src", "src"]:
        for f in sorted((REPO / base).rglob("*.rs")):
            h.update(str(f.relative_to(REPO)).encode())
            h.update(f.read_bytes())
    for f in ["Cargo.toml", "o2o-impl/Cargo.toml", "o2o-macros/Cargo.toml"]:
        h.update((REPO / f).read_bytes())
    return h.hexdigest()[:16]


# ----------------------------------------------------------------------------------------------
# The interface: evidence, violations, known findings
# ----------------------------------------------------------------------------------------------
def load_known(pid):
    if not KNOWN.exists():
        return []
    data = json.loads(KNOWN.read_text())
    return [f for f in data.get("findings", []) if f.get("property") == pid and f.get("status", "open") == "open"]


def matches(entry, cell, symptom):
    if entry.get("symptom") and entry["symptom"] != symptom:
        return False
    for k, v in entry.get("where", {}).items():
        cv = cell.get(k)
        if isinstance(v, list):
            if cv not in v:
                return False
        elif cv != v:
            return False
    return True


class Ctx:
    def __init__(self, pid, tier, seed, level):
        self.pid, self.tier, self.seed, self.level = pid, tier, seed, level
        self.t0 = time.time()
        self.viol = []          # (cell, symptom, detail)
        self.cov = {"evaluations": 0, "distinct_nontrivial": 0, "rule": "", "samples": [], "states": 0, "transitions": 0,
                    "traces_validated_against_impl": 0}
        self.assumptions = []
        self.known = load_known(pid)
        self.notes = []
        self.work = OUT / pid
        self.work.mkdir(parents=True, exist_ok=True)

    def add_tlc(self, r):
        self.cov["states"] += r.distinct if hasattr(r, "distinct") else r["distinct"]
        self.cov["transitions"] += r.generated if hasattr(r, "generated") else r["generated"]

    def violation(self, cell, symptom, detail):
        self.viol.append((cell, symptom, detail))

    def sample(self, s, limit=6):
        if len(self.cov["samples"]) < limit:
            self.cov["samples"].append(s)

    def finish(self):
        wall = time.time() - self.t0
        hits = {i: 0 for i in range(len(self.known))}
        unexplained = []
        for cell, symptom, detail in self.viol:
            for i, e in enumerate(self.known):
                if matches(e, cell, symptom):
                    hits[i] += 1
                    break
            else:
                unexplained.append((cell, symptom, detail))
        for i, e in enumerate(self.known):
            print(f"KNOWN-FINDING: property={self.pid} {e.get('id', '')} {e.get('what', '')} "
                  f"[cell {json.dumps(e.get('where', {}), sort_keys=True)} symptom {e.get('symptom', '*')}; seen {hits[i]}x in this run]")
        rc = 0
        seen_groups = {}
        for cell, symptom, detail in unexplained:
            key = json.dumps([cell, symptom], sort_keys=True)
            seen_groups.setdefault(key, []).append(detail)
        rdir = OUT / "replay" / self.pid
        rdir.mkdir(parents=True, exist_ok=True)
        for key, details in seen_groups.items():
            cell, symptom = json.loads(key)
            hsh = hashlib.sha256(key.encode()).hexdigest()[:12]
            path = rdir / f"{hsh}.json"
            path.write_text(json.dumps({"property": self.pid, "cell": cell, "symptom": symptom, "count": len(details),
                                        "cases": details[:5]}, indent=1))
            print(f"VIOLATION property={self.pid} replay={path}")
            print(f"  cell={json.dumps(cell, sort_keys=True)} symptom={symptom} cases={len(details)}")
            rc = 1
        ev = {"property_id": self.pid, "tier": self.tier, "seed": self.seed, "level": self.level,
              "coverage": self.cov, "assumptions": self.assumptions, "wall_s": round(wall, 2),
              "violations": len(unexplained), "known_finding_hits": sum(hits.values()), "notes": self.notes}
        (VERIF / "evidence").mkdir(exist_ok=True)
        (VERIF / "evidence" / f"{self.pid}.json").write_text(json.dumps(ev, indent=1, sort_keys=True) + "\n")
        log(f"[{self.pid}] tier={self.tier} wall={wall:.1f}s evaluations={self.cov.get('evaluations')} "
            f"violations={len(unexplained)} known_hits={sum(hits.values())}")
        return rc


def canary(ctx, what, module, records, corrupt, cfg=None):
    """Binding demonstration (DESIGN 5.4): a corrupted copy of a real observation must be rejected by the judge."""
    import copy
    if not records:
        raise ToolError(f"canary for {what}: no records")
    bad = copy.deepcopy(records[: min(len(records), 20)])
    if not corrupt(bad):
        raise ToolError(f"canary for {what}: corruption function found nothing to corrupt")
    ok, mism, _ = judge(module, bad, cfg=cfg, shards=1, tag=f"{module}-canary-{os.getpid()}")
    if not mism:
        raise ToolError(f"VACUOUS JUDGE: {module} accepted a corrupted observation ({what})")
    ctx.notes.append(f"canary {what}: corrupted observation rejected by {module} ({len(mism)} mismatch)")
    return True


def replay(path):
    """Generic replay of a violation file written by Ctx.finish(): shows the recorded cell / symptom / expectation and re-expands every recorded
    source text with the real derive of the CURRENT /repo working tree (both back-ends), so that the reader sees what the code does now."""
    d = json.loads(Path(path).read_text())
    print(f"property={d['property']} symptom={d['symptom']} cell={json.dumps(d['cell'], sort_keys=True)} cases_recorded={d['count']}")
    n = 0
    for c in d.get("cases", []):
        srcs = []
        for k in ("src", "joint", "projected", "bare", "respelled"):
            if isinstance(c.get(k), str):
                srcs.append((k, c[k]))
        for k in ("srcs",):
            if isinstance(c.get(k), list):
                srcs += [(f"{k}[{i}]", x) for i, x in enumerate(c[k])]
        print("-" * 100)
        for k in ("input", "instrs", "g", "expected", "observed", "report", "errors", "bad_paths", "verdicts"):
            if k in c:
                print(f"{k}: {json.dumps(c[k])[:1500]}")
        for label, src in srcs:
            for be in ("syn1", "syn2"):
                r = expand([{"id": 0, "src": src}], be)[0]["runs"][0]
                print(f"[{label}] {be}: {src[:400]}\n    -> verdict={r['verdict']} " + (r.get('out', '')[:900] if r['verdict'] == 'ok' else json.dumps(r.get('msgs') or r.get('site'))[:600]))
        if "program" in c:
            print("generated program (compiled with the real proc-macro by the check; re-run the check to execute it):\n" + c["program"][:3000])
        n += 1
    return 0
