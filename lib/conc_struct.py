"""Printer from abstract struct inputs (spec/O2OStruct.tla) to Rust programs that use the real #[derive(o2o)].
It only prints; names and positions are the author's view of both types (what the README tells an author to write).
Nothing here says what a conversion should return."""

GHOSTS = ("ghostd", "ghostb", "gowned", "gref")


def eff(c):
    return {"same": c["shape"], "struct": "named", "tuple": "tuple", "bare": "tuple", "unit": "unit"}[c["form"]]


def has_leaf(it):
    return it not in ("ghostd", "ghostb")


class StructCase:
    def __init__(self, ci, c):
        self.ci, self.c = ci, c
        self.ms = c["ms"]
        self.n = len(self.ms)
        self.shape, self.form, self.F = c["shape"], c["form"], eff(c)
        self.bare = self.form == "bare"
        self.nleaf = sum(1 for it in self.ms if has_leaf(it))

    # ---- the author's naming of both sides ----
    def own(self, i):
        return f"s{i}" if self.shape == "named" else str(i - 1)

    def cm(self, i):
        it = self.ms[i - 1]
        if self.F == "named":
            return f"r{i}" if it in ("ren", "ded", "renexpr", "astyperen") else f"s{i}"
        return str(sum(1 for j in range(1, i) if has_leaf(self.ms[j - 1])))

    def sgleaf(self, j):
        return f"x{j}" if self.F == "named" else str(self.nleaf + j - 1)

    def extra(self):
        return "extra" if self.F == "named" else str(self.nleaf + self.c["sg"])

    def first_mapped(self):
        for i, it in enumerate(self.ms, 1):
            if it not in GHOSTS:
                return i
        return 0

    def leaf_ty(self, side, i):
        it = self.ms[i - 1]
        if it in ("astype", "astyperen"):
            return "i32" if side == "S" else "i64"
        return "V"

    # ---- leaves of D / DX ----
    def base_leaves(self):
        if self.F == "unit":
            return []
        out = [(self.cm(i), self.leaf_ty("D", i)) for i in range(1, self.n + 1) if has_leaf(self.ms[i - 1])]
        out += [(self.sgleaf(j), "V") for j in range(1, self.c["sg"] + 1)]
        return out

    def dx_leaves(self):
        return [] if self.F == "unit" else self.base_leaves() + [(self.extra(), "V")]

    def d_leaves(self):
        return self.dx_leaves() if self.c["upd"] else self.base_leaves()

    def s_leaves(self):
        return [(self.own(i), self.leaf_ty("S", i)) for i in range(1, self.n + 1)]

    # ---- attribute text ----
    def member_attr(self, i, fallible):
        it = self.ms[i - 1]
        cmn = self.cm(i)
        fm = self.first_mapped()
        call = (lambda x: f"chk({i}, {x})?") if fallible else (lambda x: f"tg({i}, {x})")
        if it == "none":
            return ""
        if it == "ren":
            return f"#[map({cmn})]"
        if it == "ded":
            bogus = f"zz{i}" if self.F == "named" else "9"
            return f"#[map({bogus})] #[map(D| {cmn})] #[into_existing(DX| {cmn})]"
        if it == "expr":
            return f"#[map({call('~')})]"
        if it == "renexpr":
            return f"#[map({cmn}, {call('~')})]"
        if it == "at":
            return f"#[from(tg({i}, @.{self.cm(fm)}))] #[into(tg({i}, @.{self.own(fm)}))]"
        if it == "var":
            return f"#[map(pair(v1, ~))]"
        if it == "astype":
            return "#[o2o(as_type(i64))]"
        if it == "astyperen":
            return f"#[o2o(as_type({cmn}, i64))]"
        if it == "ghostd":
            return f"#[ghost({{gh({i})}})]"
        if it == "ghostb":
            return "#[ghost]"
        if it == "gowned":
            return f"#[o2o(ghost_owned({{gh({i})}}))]"
        if it == "gref":
            return f"#[o2o(ghost_ref({{gh({i})}}))]"
        raise ValueError(it)

    def ghosts_attrs(self):
        """struct-level ghosts: the sg entries plus the supplies for members that are ghost for one ownership only."""
        c = self.c
        owned = [f"{self.cm(i)}: {{go({i})}}" for i in range(1, self.n + 1) if self.ms[i - 1] == "gowned"]
        ref = [f"{self.cm(i)}: {{gr({i})}}" for i in range(1, self.n + 1) if self.ms[i - 1] == "gref"]
        both = []
        if c["sgm"] == "ded" and c["sg"]:
            dflt = ", ".join(f"{self.sgleaf(j)}: {{gy({j})}}" for j in range(1, c["sg"] + 1))
            ded = ", ".join(f"{self.sgleaf(j)}: {{gx({j})}}" for j in range(1, c["sg"] + 1))
            return f"#[ghosts({dflt})] #[ghosts(D| {ded})] #[ghosts(DX| {ded})]"
        for j in range(1, c["sg"] + 1):
            if c["sgm"] == "both" and not owned and not ref:
                both.append(f"{self.sgleaf(j)}: {{gx({j})}}")
            elif c["sgm"] == "both":
                owned.append(f"{self.sgleaf(j)}: {{gx({j})}}")
                ref.append(f"{self.sgleaf(j)}: {{gx({j})}}")
            else:
                owned.append(f"{self.sgleaf(j)}: {{gx({j})}}")
                ref.append(f"{self.sgleaf(j)}: {{gy({j})}}")
        out = []
        if both:
            out.append(f"#[ghosts({', '.join(both)})]")
        if owned:
            out.append(f"#[o2o(ghosts_owned({', '.join(owned)}))]")
        if ref:
            out.append(f"#[o2o(ghosts_ref({', '.join(ref)}))]")
        return " ".join(out)

    def params(self, which, fallible):
        """which: 'map' | 'ie'.  Trait-instruction parameters after `|`."""
        c = self.c
        fm = self.first_mapped()
        ps = []
        if c["vars"]:
            # `map` serves both directions: the var reads the first mapped member through a direction-neutral accessor
            ps.append("vars(" + ", ".join(f"v{j}: {{ev({j}, first(&@))}}" for j in range(1, c["vars"] + 1)) + ")")
        if c["upd"] and which == "map":
            ps.append("..upd()")
        if c["ret"]:
            ps.append("return rete()" if (fallible and which == "map") else "return ret()")
        return (" | " + ", ".join(ps)) if ps else ""

    def tydef(self, name, leaves):
        if self.bare:
            return ""
        if self.F == "named":
            return f"#[derive(Clone)] pub struct {name} {{ {' '.join(f'pub {l}: {t},' for l, t in leaves)} }}"
        if self.F == "tuple":
            return f"#[derive(Clone)] pub struct {name}({' '.join(f'pub {t},' for l, t in leaves)});"
        return f"#[derive(Clone)] pub struct {name};"

    def tyname(self, which):
        leaves = self.d_leaves() if which == "D" else self.dx_leaves()
        if self.bare:
            return "(" + "".join(f"{t}, " for l, t in leaves) + ")"
        return which

    def lit(self, tyname, shape, leaves, pref, poison=None):
        """value of a type with atoms `<pref>.<leaf>` in every leaf (the poison leaf holds the POISON atom)."""
        def atom(l, t):
            s = f"POISON.{l}" if l == poison else f"{pref}.{l}"
            return f'mkn("{s}") as {t}' if t != "V" else f'mk("{s}")'
        if shape == "unit":
            return tyname
        if shape == "named":
            return f"{tyname} {{ " + ", ".join(f"{l}: {atom(l, t)}" for l, t in leaves) + " }"
        anon = tyname.startswith("(")
        return ("" if anon else tyname) + "(" + ", ".join(atom(l, t) for l, t in leaves) + ("," if len(leaves) == 1 and anon else "") + ")"

    def base_impl(self, tyname, shape, leaves):
        def atom(l, t):
            return f'(mk(&format!("{{}}.{l}", tag)).0 as {t})' if t != "V" else f'mk(&format!("{{}}.{l}", tag))'
        if shape == "unit":
            body = tyname
        elif shape == "named":
            body = f"{tyname} {{ " + ", ".join(f"{l}: {atom(l, t)}" for l, t in leaves) + " }"
        else:
            anon = tyname.startswith("(")
            body = ("" if anon else tyname) + "(" + ", ".join(atom(l, t) for l, t in leaves) + ("," if len(leaves) == 1 and anon else "") + ")"
        return f"impl Base for {tyname} {{ fn base(tag: &str) -> Self {{ {body} }} }}"

    def first_impl(self, tyname, leafname):
        return f"impl First for {tyname} {{ fn first_leaf(&self) -> V {{ self.{leafname} }} }}"

    def sdef(self, name, fallible):
        c = self.c
        D, DX = self.tyname("D"), self.tyname("DX")
        hint = {"same": "", "struct": " as {}", "tuple": " as ()", "bare": "", "unit": " as Unit"}[self.form]
        m = "try_map" if fallible else "map"
        ie = "try_into_existing" if fallible else "into_existing"
        er = ", Er" if fallible else ""
        attrs = f"#[{m}({D}{hint}{er}{self.params('map', fallible)})] #[{ie}({DX}{hint}{er}{self.params('ie', fallible)})] {self.ghosts_attrs()}"
        fields = [(self.member_attr(i, fallible), self.own(i), self.leaf_ty("S", i)) for i in range(1, self.n + 1)]
        if self.shape == "named":
            body = "{ " + " ".join(f"{a} pub {o}: {t}," for a, o, t in fields) + " }"
        elif self.shape == "tuple":
            body = "( " + " ".join(f"{a} pub {t}," for a, o, t in fields) + " );"
        else:
            body = ";"
        return f"#[derive(Clone, o2o)] {attrs} pub struct {name} {body}"

    def items_only(self):
        """the type definitions and derives only (no test driver): used by the #![no_std] batch"""
        items = []
        if not self.bare:
            items.append(self.tydef("D", self.d_leaves()))
            items.append(self.tydef("DX", self.dx_leaves()))
        items.append(self.sdef("S", False))
        items.append(self.sdef("Sf", True))
        return "\n".join(i for i in items if i)

    def program(self):
        c, ci = self.c, self.ci
        D, DX = self.tyname("D"), self.tyname("DX")
        dl, dxl, sl = self.d_leaves(), self.dx_leaves(), self.s_leaves()
        uses_base = c["upd"] or c["ret"]
        fm = self.first_mapped()
        items = []
        if not self.bare:
            items.append(self.tydef("D", dl))
            items.append(self.tydef("DX", dxl))
        items.append(self.sdef("S", False))
        items.append(self.sdef("Sf", True))
        if uses_base:
            # traits local to the case module: bare tuples are foreign types, a crate-wide trait would collide between cases
            items.append('pub trait Base { fn base(tag: &str) -> Self; } pub fn upd<T: Base>() -> T { T::base("U") } '
                         'pub fn ret<T: Base>() -> T { T::base("R") } pub fn rete<T: Base>() -> Result<T, Er> { Ok(T::base("R")) }')
            tys = [("S", self.shape, sl), ("Sf", self.shape, sl)]
            if self.bare:
                seen = set()
                for ty, lv in ((D, dl), (DX, dxl)):
                    if ty not in seen:
                        seen.add(ty)
                        tys.append((ty, "tuple", lv))
            else:
                tys += [("D", self.F, dl), ("DX", self.F, dxl)]
            for ty, sh, lv in tys:
                items.append(self.base_impl(ty, sh, lv))
        if c["vars"]:
            items.append("pub trait First { fn first_leaf(&self) -> V; } pub fn first<T: First>(t: &T) -> V { t.first_leaf() } impl<T: First> First for &T { fn first_leaf(&self) -> V { (**self).first_leaf() } }")
            seen = set()
            for ty, leaf in (("S", self.own(fm)), ("Sf", self.own(fm)), (D, self.cm(fm)), (DX, self.cm(fm))):
                if ty not in seen:
                    seen.add(ty)
                    items.append(self.first_impl(ty, leaf))

        def leaves_of(var, leaves):
            return ", ".join(f'("{l}", {var}.{l}.sh())' for l, t in leaves)

        def slit(name, poison=None):
            return self.lit(name, self.shape, sl, "S", poison)

        def dlit(poison=None):
            return self.lit(D, self.F, dl, "D", poison)
        dxlit = self.lit(DX, self.F, dxl, "P")
        run = []
        # vectors: clean, and for the fallible twin one poison vector per `?` site
        sites = [i for i in range(1, self.n + 1) if self.ms[i - 1] in ("expr", "renexpr")]
        for name, fall in (("S", False), ("Sf", True)):
            f = "true" if fall else "false"
            vecs = [("clean", None, None)] + ([(f"poison{i}", self.own(i), self.cm(i)) for i in sites] if fall else [])
            for vec, ps, pd in vecs:
                def emit(k, expr_ok, var_leaves, setup=""):
                    # expr_ok evaluates to Result<_, Er> for fallible, plain value otherwise; x is the observed object
                    if fall:
                        run.append(f'{{ {setup} match {expr_ok} {{ Ok(x) => obs({ci},"{k}",{f},"{vec}","ok",0,vec![{var_leaves("x")}]), Err(e) => obs({ci},"{k}",{f},"{vec}","err",e.0,vec![]) }} }}')
                    else:
                        run.append(f'{{ {setup} let x = {expr_ok}; obs({ci},"{k}",{f},"{vec}","ok",0,vec![{var_leaves("x")}]); }}')
                sv = lambda v: leaves_of(v, sl)
                dv = lambda v: leaves_of(v, dl)
                if fall:
                    emit("FO", f"<{name} as TryFrom<{D}>>::try_from({dlit(pd)})", sv)
                    emit("FR", f"<{name} as TryFrom<&{D}>>::try_from(&{dlit(pd)})", sv)
                    emit("OI", f"<{name} as TryInto<{D}>>::try_into({slit(name, ps)})", dv)
                    emit("RI", f"<&{name} as TryInto<{D}>>::try_into(&{slit(name, ps)})", dv)
                    run.append(f'{{ let mut x: {DX} = {dxlit}; let s0 = {slit(name, ps)}; match s0.try_into_existing(&mut x) {{ Ok(()) => obs({ci},"OIE",{f},"{vec}","ok",0,vec![{leaves_of("x", dxl)}]), Err(e) => obs({ci},"OIE",{f},"{vec}","err",e.0,vec![{leaves_of("x", dxl)}]) }} }}')
                    run.append(f'{{ let mut x: {DX} = {dxlit}; let s0 = {slit(name, ps)}; match (&s0).try_into_existing(&mut x) {{ Ok(()) => obs({ci},"RIE",{f},"{vec}","ok",0,vec![{leaves_of("x", dxl)}]), Err(e) => obs({ci},"RIE",{f},"{vec}","err",e.0,vec![{leaves_of("x", dxl)}]) }} }}')
                else:
                    emit("FO", f"<{name} as From<{D}>>::from({dlit()})", sv)
                    emit("FR", f"<{name} as From<&{D}>>::from(&{dlit()})", sv)
                    emit("OI", f"<{name} as Into<{D}>>::into({slit(name)})", dv)
                    emit("RI", f"<&{name} as Into<{D}>>::into(&{slit(name)})", dv)
                    run.append(f'{{ let mut x: {DX} = {dxlit}; {slit(name)}.into_existing(&mut x); obs({ci},"OIE",{f},"{vec}","ok",0,vec![{leaves_of("x", dxl)}]); }}')
                    run.append(f'{{ let mut x: {DX} = {dxlit}; (&{slit(name)}).into_existing(&mut x); obs({ci},"RIE",{f},"{vec}","ok",0,vec![{leaves_of("x", dxl)}]); }}')
        body = "\n  ".join(run)
        nl = "\n"
        src = f"pub mod c{ci} {{ use super::*;\n{nl.join(i for i in items if i)}\npub fn run() {{\n  {body}\n}} }}"
        return src
