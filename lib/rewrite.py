"""Helpers for the rewrite properties (C12 / C13 / C06): facts about two real expansions (no expectations)."""
import collections
import re

import core

HINT = re.compile(r" To turn this message off, use #\[o2o\(allow_unknown\)\]")
QUOTED_INSTR = re.compile(r"#\[\w+\(\.\.\.\)\]|'\w+'|#\[\w+\(")


def impl_bag(run):
    if run.get("verdict") != "ok":
        return None
    p = run.get("proj")
    if not p or p.get("parse") != "ok":
        return collections.Counter([run.get("out", "")])
    return collections.Counter(im["str"] for im in p["impls"])


def norm_msgs(msgs, loose_instr_names=False):
    out = []
    for m in msgs:
        m = HINT.sub("", m)
        if loose_instr_names:
            m = QUOTED_INSTR.sub("<instr>", m)     # a diagnostic may quote the instruction name as written (shortcut vs basic)
        out.append(m)
    return sorted(set(out))


def relate(id_, rel, a, b, loose=False):
    """one record for Trace_Rewrite from two runs (already projected when rel == 'bag')"""
    ba, bb = impl_bag(a), impl_bag(b)
    return {"id": id_, "rel": rel, "v1": a["verdict"], "v2": b["verdict"],
            "identical": a.get("out") == b.get("out"), "bag_equal": ba == bb,
            "msgs_equal": norm_msgs(a.get("msgs", []), loose) == norm_msgs(b.get("msgs", []), loose)}
