"""Printer from abstract #[parent] inputs (spec/O2OParent.tla) to Rust programs using the real #[derive(o2o)]."""


class ParentCase:
    def __init__(self, ci, c):
        self.ci, self.c = ci, c
        self.nb = len(c["bit"])
        self.no = len(c["own"])
        self.kind = c["kind"]

    def bleaf(self, j):
        it = self.c["bit"][j - 1]
        if it == "ren":
            return f"q{j}"
        return f"c{j}" if (self.kind in ("nested", "nested3") and j == self.nb) else f"b{j}"

    def bpath(self, j):
        if self.kind == "nested3" and j == self.nb:
            return f"base.inner.deep.c{j}"
        return f"base.inner.c{j}" if (self.kind == "nested" and j == self.nb) else f"base.b{j}"

    def d_leaves(self):
        return [f"s{j}" for j in range(1, self.no + 1)] + [self.bleaf(j) for j in range(1, self.nb + 1)]

    def s_paths(self):
        return [f"s{j}" for j in range(1, self.no + 1)] + [self.bpath(j) for j in range(1, self.nb + 1)]

    def types(self):
        c = self.c
        dl = self.d_leaves()
        out = ["#[derive(Clone, Default)] pub struct D { " + " ".join(f"pub {l}: V," for l in dl) + " }",
               "#[derive(Clone, Default)] pub struct DX { " + " ".join(f"pub {l}: V," for l in dl) + " pub extra: V, }"]
        inner = self.kind in ("nested", "nested3")
        nbase = self.nb - 1 if inner else self.nb
        for fall, bn in ((False, "Base"), (True, "Basef")):
            bf = []
            for j in range(1, nbase + 1):
                it = c["bit"][j - 1]
                a = ""
                if self.kind == "bare":
                    call = f"chk({100 + j}, ~)?" if fall else f"tg({100 + j}, ~)"
                    a = {"none": "", "ren": f"#[map(q{j})]", "expr": f"#[map({call})]",
                         "kexpr": f"#[o2o(owned_into(tg({200 + j}, ~)))] #[o2o(ref_into(tg({300 + j}, ~)))]"}[it]
                bf.append(f"{a} pub b{j}: V,")
            if inner:
                bf.append("pub inner: Inner,")
            if self.kind == "bare":
                hdr = ("#[derive(Clone, Default, o2o)] #[try_from_ref(D, Er)] #[try_into_existing(D, Er)] #[try_into_existing(DX, Er)]" if fall
                       else "#[derive(Clone, Default, o2o)] #[from_ref(D)] #[into_existing(D)] #[into_existing(DX)]")
            else:
                hdr = "#[derive(Clone, Default)]"
            out.append(f"{hdr} pub struct {bn} {{ {' '.join(bf)} }}")
        if self.kind == "nested3":
            out.append("#[derive(Clone, Default)] pub struct Inner { pub deep: Deep, }")
            out.append(f"#[derive(Clone, Default)] pub struct Deep {{ pub c{self.nb}: V, }}")
        elif inner:
            out.append(f"#[derive(Clone, Default)] pub struct Inner {{ pub c{self.nb}: V, }}")
        return out

    def parent_attr(self, fall):
        c = self.c
        if self.kind == "bare":
            return "#[parent]"
        items = []
        inner = self.kind in ("nested", "nested3")
        nbase = self.nb - 1 if inner else self.nb
        for j in range(1, nbase + 1):
            it = c["bit"][j - 1]
            items.append({"none": f"b{j}", "ren": f"[map(q{j})] b{j}", "kexpr": f"[owned_into(tg({200 + j}, ~))] [ref_into(tg({300 + j}, ~))] b{j}"}[it])
        if inner:
            j = self.nb
            it = c["bit"][j - 1]
            leaf = {"none": f"c{j}", "ren": f"[map(q{j})] c{j}", "kexpr": f"[owned_into(tg({200 + j}, ~))] [ref_into(tg({300 + j}, ~))] c{j}"}[it]
            if self.kind == "nested3":
                # two levels down, written before the direct members; `inner` has no direct member of its own
                items.insert(0, "[parent([parent(" + leaf + ")] deep: Deep)] inner: Inner")
            else:
                items.append("[parent(" + leaf + ")] inner: Inner")
        # a single bare identifier would be read as the type the instruction is dedicated to (#[parent(Type)]): write the unambiguous spelling
        tail = "," if len(items) == 1 and items[0].isidentifier() else ""
        return "#[parent(" + ", ".join(items) + tail + ")]"

    def sdef(self, name, fall):
        c = self.c
        fields = []
        for j in range(1, self.no + 1):
            it = c["own"][j - 1]
            call = f"chk({j}, ~)?" if fall else f"tg({j}, ~)"
            fields.append(({"none": "", "expr": f"#[map({call})]"}[it]) + f" pub s{j}: V,")
        bty = ("Basef" if fall else "Base") if self.kind == "bare" else "Base"
        fields.insert(c["ppos"] - 1, f"{self.parent_attr(fall)} pub base: {bty},")
        vars_ = " | vars(v1: {ev(1, V(0))})" if c["vars"] else ""
        m, ie, er = ("try_map", "try_into_existing", ", Er") if fall else ("map", "into_existing", "")
        return f"#[derive(Clone, o2o)] #[{m}(D{er}{vars_})] #[{ie}(DX{er}{vars_})] pub struct {name} {{ {' '.join(fields)} }}"

    def slit(self, name, fall, poison=None):
        c = self.c
        def a(path):
            return f'mk("POISON.{path}")' if path == poison else f'mk("S.{path}")'
        inner = self.kind in ("nested", "nested3")
        nbase = self.nb - 1 if inner else self.nb
        bty = ("Basef" if fall else "Base") if self.kind == "bare" else "Base"
        bf = [f"b{j}: {a(f'base.b{j}')}" for j in range(1, nbase + 1)]
        if self.kind == "nested3":
            bf.append(f"inner: Inner {{ deep: Deep {{ c{self.nb}: {a(f'base.inner.deep.c{self.nb}')} }} }}")
        elif inner:
            bf.append(f"inner: Inner {{ c{self.nb}: {a(f'base.inner.c{self.nb}')} }}")
        fs = [f"s{j}: {a(f's{j}')}" for j in range(1, self.no + 1)]
        fs.insert(c["ppos"] - 1, f"base: {bty} {{ {', '.join(bf)} }}")
        return f"{name} {{ {', '.join(fs)} }}"

    def dlit(self, ty, pref, extra, poison=None):
        fs = [(f'{l}: mk("POISON.{l}")' if l == poison else f'{l}: mk("{pref}.{l}")') for l in self.d_leaves()]
        if extra:
            fs.append(f'extra: mk("{pref}.extra")')
        return f"{ty} {{ {', '.join(fs)} }}"

    def program(self):
        ci, c = self.ci, self.c
        sp, dl = self.s_paths(), self.d_leaves()
        lv = lambda var, names: ", ".join(f'("{l}", {var}.{l}.sh())' for l in names)
        run = []
        sites = [(j, f"s{j}", f"s{j}") for j in range(1, self.no + 1) if c["own"][j - 1] == "expr"]
        sites += [(100 + j, self.bpath(j), self.bleaf(j)) for j in range(1, self.nb + 1) if c["bit"][j - 1] == "expr"]
        for name, fall in (("S", False), ("Sf", True)):
            f = "true" if fall else "false"
            vecs = [("clean", None, None)] + ([(f"poison{n}", ps, pd) for n, ps, pd in sites] if fall else [])
            for vec, ps, pd in vecs:
                d, dx, s = self.dlit("D", "D", False, pd), self.dlit("DX", "P", True), self.slit(name, fall, ps)
                if fall:
                    def emit(k, expr, leaves):
                        run.append(f'{{ take_log(); match {expr} {{ Ok(x) => obs({ci},"{k}",{f},"{vec}","ok",0,vec![{lv("x", leaves)}]), Err(e) => obs({ci},"{k}",{f},"{vec}","err",e.0,vec![]) }} }}')
                    emit("FO", f"<{name} as TryFrom<D>>::try_from({d})", sp)
                    emit("FR", f"<{name} as TryFrom<&D>>::try_from(&{d})", sp)
                    emit("OI", f"<{name} as TryInto<D>>::try_into({s})", dl)
                    emit("RI", f"<&{name} as TryInto<D>>::try_into(&{s})", dl)
                    for k, recv in (("OIE", "s0"), ("RIE", "(&s0)")):
                        run.append(f'{{ take_log(); let mut x: DX = {dx}; let s0 = {s}; match {recv}.try_into_existing(&mut x) {{ Ok(()) => obs({ci},"{k}",{f},"{vec}","ok",0,vec![{lv("x", dl + ["extra"])}]), Err(e) => obs({ci},"{k}",{f},"{vec}","err",e.0,vec![]) }} }}')
                else:
                    run.append(f'{{ take_log(); let x = <{name} as From<D>>::from({d}); obs({ci},"FO",{f},"{vec}","ok",0,vec![{lv("x", sp)}]); }}')
                    run.append(f'{{ take_log(); let x = <{name} as From<&D>>::from(&{d}); obs({ci},"FR",{f},"{vec}","ok",0,vec![{lv("x", sp)}]); }}')
                    run.append(f'{{ take_log(); let x = <{name} as Into<D>>::into({s}); obs({ci},"OI",{f},"{vec}","ok",0,vec![{lv("x", dl)}]); }}')
                    run.append(f'{{ take_log(); let x = <&{name} as Into<D>>::into(&{s}); obs({ci},"RI",{f},"{vec}","ok",0,vec![{lv("x", dl)}]); }}')
                    for k, recv in (("OIE", "s0"), ("RIE", "(&s0)")):
                        run.append(f'{{ take_log(); let mut x: DX = {dx}; let s0 = {s}; {recv}.into_existing(&mut x); obs({ci},"{k}",{f},"{vec}","ok",0,vec![{lv("x", dl + ["extra"])}]); }}')
        nl = "\n"
        return (f"pub mod c{ci} {{ use super::*;\n{nl.join(self.types())}\n{self.sdef('S', False)}\n{self.sdef('Sf', True)}\n"
                f"pub fn run() {{\n  {(nl + '  ').join(run)}\n}} }}")
