//! Thin in-process driver: feeds concrete derive inputs to the real `o2o_impl::expand::derive`
//! and records what comes back (tokens | diagnostics | panic site).  No expectations live here.
#[cfg(feature = "syn2")]
use syn2 as syn;

use proc_macro2::{Delimiter, Spacing, TokenStream, TokenTree};
use serde_json::{json, Value};
use std::cell::RefCell;
use std::io::{BufRead, BufWriter, Write};

thread_local! { static PANIC_SITE: RefCell<Option<(String, String)>> = RefCell::new(None); }

fn flatten(ts: TokenStream, out: &mut Vec<Value>) {
    for tt in ts {
        match tt {
            TokenTree::Group(g) => {
                let (o, c) = match g.delimiter() {
                    Delimiter::Parenthesis => ("(", ")"),
                    Delimiter::Brace => ("{", "}"),
                    Delimiter::Bracket => ("[", "]"),
                    Delimiter::None => ("", ""),
                };
                if !o.is_empty() { out.push(json!(["g", o, "a"])); }
                flatten(g.stream(), out);
                if !c.is_empty() { out.push(json!(["g", c, "a"])); }
            }
            TokenTree::Ident(i) => out.push(json!(["i", i.to_string(), "a"])),
            TokenTree::Punct(p) => out.push(json!(["p", p.as_char().to_string(), if p.spacing() == Spacing::Joint { "j" } else { "a" }])),
            TokenTree::Literal(l) => out.push(json!(["l", l.to_string(), "a"])),
        }
    }
}

fn expand_once(src: &str, want_tokens: bool, want_events: bool) -> Value {
    let input: syn::DeriveInput = match syn::parse_str(src) {
        Ok(x) => x,
        Err(e) => return json!({"verdict": "input_parse_error", "msgs": [e.to_string()]}),
    };
    PANIC_SITE.with(|p| *p.borrow_mut() = None);
    #[cfg(o2o_verif)]
    let _ = o2o_impl::verif::take_events();
    let r = std::panic::catch_unwind(|| o2o_impl::expand::derive(&input));
    #[cfg(o2o_verif)]
    let events: Vec<Value> = o2o_impl::verif::take_events().iter().map(|e| serde_json::from_str(e).unwrap_or_else(|x| json!({"ev": "bad_json", "err": x.to_string(), "raw": e}))).collect();
    #[cfg(not(o2o_verif))]
    let events: Vec<Value> = vec![];
    let mut v = expand_inner(r, want_tokens);
    if want_events { v["events"] = Value::Array(events); }
    v
}

fn expand_inner(r: std::thread::Result<syn::Result<TokenStream>>, want_tokens: bool) -> Value {
    match r {
        Ok(Ok(ts)) => {
            let mut v = json!({"verdict": "ok", "out": ts.to_string()});
            if want_tokens { let mut t = vec![]; flatten(ts, &mut t); v["toks"] = Value::Array(t); }
            v
        }
        Ok(Err(e)) => {
            let ce = e.to_compile_error().to_string();
            let msgs: Vec<String> = e.into_iter().map(|x| x.to_string()).collect();
            json!({"verdict": "err", "msgs": msgs, "compile_error": ce})
        }
        Err(_) => {
            let (site, msg) = PANIC_SITE.with(|p| p.borrow().clone()).unwrap_or_default();
            json!({"verdict": "panic", "site": site, "msg": msg})
        }
    }
}

fn main() {
    std::panic::set_hook(Box::new(|info| {
        let site = info.location().map(|l| {
            let f = l.file();
            let f = f.rsplit("o2o-impl/src/").next().map(|x| x.to_string()).unwrap_or_else(|| f.to_string());
            format!("{}:{}", f, l.line())
        }).unwrap_or_default();
        let msg = if let Some(s) = info.payload().downcast_ref::<&str>() { s.to_string() }
                  else if let Some(s) = info.payload().downcast_ref::<String>() { s.clone() } else { String::new() };
        PANIC_SITE.with(|p| *p.borrow_mut() = Some((site, msg)));
    }));
    let args: Vec<String> = std::env::args().collect();
    let want_tokens = args.iter().any(|a| a == "--tokens");
    let want_events = args.iter().any(|a| a == "--events");
    let repeat: usize = args.iter().position(|a| a == "--repeat").and_then(|i| args.get(i + 1)).and_then(|s| s.parse().ok()).unwrap_or(1);
    let backend = if cfg!(feature = "syn2") { "syn2" } else { "syn1" };
    let stdin = std::io::stdin();
    let mut out = BufWriter::new(std::io::stdout());
    for line in stdin.lock().lines() {
        let line = line.unwrap();
        if line.trim().is_empty() { continue; }
        let case: Value = serde_json::from_str(&line).expect("case line must be JSON");
        let id = case["id"].clone();
        // tokenisation of user-written fragments (what the author wrote, as proc_macro2 sees it)
        let frags: Vec<Value> = case["frags"].as_array().map(|a| a.iter().map(|x| {
            match x.as_str().unwrap_or("").parse::<TokenStream>() { Ok(ts) => { let mut t = vec![]; flatten(ts, &mut t); Value::Array(t) } Err(_) => Value::String("lex_error".into()) }
        }).collect()).unwrap_or_default();
        // "src" is one derive input; "srcs" a list (metamorphic pairs / projections)
        let srcs: Vec<String> = if let Some(s) = case["src"].as_str() { vec![s.to_string()] }
            else { case["srcs"].as_array().map(|a| a.iter().map(|x| x.as_str().unwrap_or("").to_string()).collect()).unwrap_or_default() };
        let mut runs = vec![];
        for s in &srcs {
            let mut reps = vec![];
            for _ in 0..repeat { reps.push(expand_once(s, want_tokens, want_events)); }
            if repeat == 1 { runs.push(reps.pop().unwrap()); } else { runs.push(Value::Array(reps)); }
        }
        writeln!(out, "{}", json!({"id": id, "backend": backend, "runs": runs, "frags": frags})).unwrap();
    }
}
