//! Projection of real expansions into the vocabulary of the specification.
//! Reads the ndjson written by `conf` and adds, for every accepted run, the facts the properties
//! speak about: impl headers (C04/C11), item shape (C17), attribute positions (C08), vocabulary (C20).
//! It states facts only; it holds no expectations.
use quote::ToTokens;
use serde_json::{json, Value};
use std::collections::BTreeSet;
use std::io::{BufRead, BufWriter, Write};
use syn::visit::Visit;

fn ts<T: ToTokens>(t: &T) -> String { t.to_token_stream().to_string() }

#[derive(Default)]
struct Vocab { bound: BTreeSet<String>, paths: BTreeSet<String> }
impl<'ast> Visit<'ast> for Vocab {
    fn visit_pat_ident(&mut self, p: &'ast syn::PatIdent) { self.bound.insert(p.ident.to_string()); syn::visit::visit_pat_ident(self, p); }
    fn visit_path(&mut self, p: &'ast syn::Path) {
        let lead = if p.leading_colon.is_some() { "::" } else { "" };
        let segs: Vec<String> = p.segments.iter().map(|s| s.ident.to_string()).collect();
        self.paths.insert(format!("{}{}", lead, segs.join("::")));
        syn::visit::visit_path(self, p);
    }
    fn visit_field_pat(&mut self, p: &'ast syn::FieldPat) {
        if let syn::Member::Named(i) = &p.member { if p.colon_token.is_none() { self.bound.insert(i.to_string()); } }
        syn::visit::visit_field_pat(self, p);
    }
}

fn project_impl(it: &syn::ItemImpl) -> Value {
    let (trait_path, trait_args) = match &it.trait_ {
        Some((_, p, _)) => {
            let mut q = p.clone();
            let args = match &q.segments.last().unwrap().arguments {
                syn::PathArguments::AngleBracketed(a) => a.args.iter().map(|x| ts(x)).collect::<Vec<_>>(),
                _ => vec![],
            };
            q.segments.last_mut().unwrap().arguments = syn::PathArguments::None;
            (ts(&q), args)
        }
        None => (String::new(), vec![]),
    };
    let (self_ref, self_lt, self_ty) = match &*it.self_ty {
        syn::Type::Reference(r) => (true, r.lifetime.as_ref().map(|l| l.to_string()).unwrap_or_default(), ts(&*r.elem)),
        t => (false, String::new(), ts(t)),
    };
    let gens: Vec<Value> = it.generics.params.iter().map(|p| match p {
        syn::GenericParam::Lifetime(l) => json!({"k": "lt", "name": l.lifetime.to_string(), "bounds": l.bounds.iter().map(|b| b.to_string()).collect::<Vec<_>>()}),
        syn::GenericParam::Type(t) => json!({"k": "ty", "name": t.ident.to_string(), "bounds": t.bounds.iter().map(|b| ts(b)).collect::<Vec<_>>(), "default": t.default.as_ref().map(|d| ts(d)).unwrap_or_else(|| "-".into())}),
        syn::GenericParam::Const(c) => json!({"k": "const", "name": c.ident.to_string(), "ty": ts(&c.ty), "default": c.default.as_ref().map(|d| ts(d)).unwrap_or_else(|| "-".into())}),
    }).collect();
    let wh: Vec<String> = it.generics.where_clause.as_ref().map(|w| w.predicates.iter().map(|p| ts(p)).collect()).unwrap_or_default();
    let impl_attrs: Vec<String> = it.attrs.iter().map(|a| ts(a)).collect();
    let mut assoc = vec![]; let mut fns = vec![]; let mut other = 0;
    for i in &it.items {
        match i {
            syn::ImplItem::Type(t) => assoc.push(json!({"name": t.ident.to_string(), "ty": ts(&t.ty)})),
            syn::ImplItem::Fn(f) => {
                let outer: Vec<String> = f.attrs.iter().filter(|a| matches!(a.style, syn::AttrStyle::Outer)).map(|a| ts(a)).collect();
                let mut inner: Vec<String> = f.attrs.iter().filter(|a| matches!(a.style, syn::AttrStyle::Inner(_))).map(|a| ts(a)).collect();
                // inner attributes written at the top of the block
                for s in &f.block.stmts { if let syn::Stmt::Item(syn::Item::Verbatim(v)) = s { inner.push(v.to_string()); } }
                let inputs: Vec<String> = f.sig.inputs.iter().map(|a| ts(a)).collect();
                let output = match &f.sig.output { syn::ReturnType::Default => "()".to_string(), syn::ReturnType::Type(_, t) => ts(&**t) };
                let mut v = Vocab::default();
                for a in &f.sig.inputs { if let syn::FnArg::Typed(p) = a { v.visit_pat(&p.pat); } }
                v.visit_block(&f.block);
                v.bound.insert("self".into());
                fns.push(json!({"name": f.sig.ident.to_string(), "outer_attrs": outer, "inner_attrs": inner, "inputs": inputs, "output": output,
                                "generics": ts(&f.sig.generics), "body": ts(&f.block),
                                "bound": v.bound.iter().collect::<Vec<_>>(), "paths": v.paths.iter().collect::<Vec<_>>()}));
            }
            _ => other += 1,
        }
    }
    // vocabulary of the whole item (header + body): every path, and every name the item binds itself
    let mut whole = Vocab::default();
    whole.visit_item_impl(it);
    for f in it.items.iter() { if let syn::ImplItem::Fn(f) = f { for a in &f.sig.inputs { if let syn::FnArg::Typed(p) = a { whole.visit_pat(&p.pat); } } } }
    whole.bound.insert("self".into());
    for p in it.generics.params.iter() { match p { syn::GenericParam::Type(t) => { whole.bound.insert(t.ident.to_string()); }, syn::GenericParam::Const(c) => { whole.bound.insert(c.ident.to_string()); }, _ => {} } }
    let all_paths: Vec<&String> = whole.paths.iter().collect();
    let all_bound: Vec<&String> = whole.bound.iter().collect();
    json!({"all_paths": all_paths, "all_bound": all_bound, "trait": trait_path, "trait_args": trait_args, "self_ref": self_ref, "self_lt": self_lt, "self_ty": self_ty,
           "gens": gens, "where": wh, "impl_attrs": impl_attrs, "assoc": assoc, "fns": fns, "other_items": other, "str": ts(it)})
}

fn project_out(out: &str) -> Value {
    match syn::parse_str::<syn::File>(out) {
        Err(e) => json!({"parse": "error", "parse_msg": e.to_string()}),
        Ok(f) => {
            let mut impls = vec![]; let mut non_impl = 0;
            for it in &f.items { if let syn::Item::Impl(i) = it { impls.push(project_impl(i)); } else { non_impl += 1; } }
            json!({"parse": "ok", "impls": impls, "non_impl_items": non_impl, "file_attrs": f.attrs.len()})
        }
    }
}

fn add_proj(run: &mut Value) {
    if run["verdict"] == "ok" { let p = project_out(run["out"].as_str().unwrap_or("")); run["proj"] = p; }
}

fn has_o2o_derive(attrs: &[syn::Attribute]) -> bool {
    attrs.iter().any(|a| a.path().is_ident("derive") && a.meta.to_token_stream().to_string().contains("o2o"))
}
fn strip(attrs: &mut Vec<syn::Attribute>) { attrs.retain(|a| !a.path().is_ident("derive")); }
fn walk_items(items: &[syn::Item], out: &mut Vec<String>) {
    for it in items {
        match it {
            syn::Item::Struct(s) => if has_o2o_derive(&s.attrs) { let mut s = s.clone(); strip(&mut s.attrs); out.push(ts(&s)); },
            syn::Item::Enum(s) => if has_o2o_derive(&s.attrs) { let mut s = s.clone(); strip(&mut s.attrs); out.push(ts(&s)); },
            syn::Item::Mod(m) => if let Some((_, items)) = &m.content { walk_items(items, out) },
            syn::Item::Fn(f) => {
                let items: Vec<syn::Item> = f.block.stmts.iter().filter_map(|s| if let syn::Stmt::Item(i) = s { Some(i.clone()) } else { None }).collect();
                walk_items(&items, out);
            }
            _ => {}
        }
    }
}
fn find_quotes(tsm: proc_macro2::TokenStream, out: &mut Vec<String>) {
    use proc_macro2::TokenTree;
    let v: Vec<TokenTree> = tsm.into_iter().collect();
    let mut i = 0;
    while i < v.len() {
        if let TokenTree::Ident(id) = &v[i] {
            if id == "quote" && i + 2 < v.len() {
                if let (TokenTree::Punct(p), TokenTree::Group(g)) = (&v[i + 1], &v[i + 2]) {
                    if p.as_char() == '!' { out.push(g.stream().to_string()); i += 3; continue; }
                }
            }
        }
        if let TokenTree::Group(g) = &v[i] { find_quotes(g.stream(), out); }
        i += 1;
    }
}
/// `proj items`: ndjson {id, src} of Rust source files / modules -> {id, items: [derive inputs found in it]}
fn items() {
    let stdin = std::io::stdin();
    let mut out = BufWriter::new(std::io::stdout());
    for line in stdin.lock().lines() {
        let line = line.unwrap();
        if line.trim().is_empty() { continue; }
        let rec: Value = serde_json::from_str(&line).expect("ndjson");
        let mut v = vec![];
        if let Ok(f) = syn::parse_str::<syn::File>(rec["src"].as_str().unwrap_or("")) { walk_items(&f.items, &mut v); }
        writeln!(out, "{}", json!({"id": rec["id"], "items": v})).unwrap();
    }
}
/// `proj extract <repo>`: every derive input that exists in the repository, as ndjson {id, origin, src}
fn extract(repo: &str) {
    let mut out = BufWriter::new(std::io::stdout());
    let mut n = 0usize;
    let mut emit = |origin: String, src: String, out: &mut BufWriter<std::io::Stdout>| {
        if syn::parse_str::<syn::DeriveInput>(&src).is_ok() { writeln!(out, "{}", json!({"id": n, "origin": origin, "src": src})).unwrap(); n += 1; }
    };
    let mut files: Vec<_> = std::fs::read_dir(format!("{}/o2o-tests/tests", repo)).unwrap().map(|e| e.unwrap().path()).collect();
    files.sort();
    for p in files {
        let txt = std::fs::read_to_string(&p).unwrap();
        if let Ok(f) = syn::parse_str::<syn::File>(&txt) { let mut v = vec![]; walk_items(&f.items, &mut v); for s in v { emit(format!("tests/{}", p.file_name().unwrap().to_string_lossy()), s, &mut out); } }
    }
    let txt = std::fs::read_to_string(format!("{}/o2o-impl/src/tests.rs", repo)).unwrap();
    if let Ok(tsm) = txt.parse::<proc_macro2::TokenStream>() { let mut v = vec![]; find_quotes(tsm, &mut v); for s in v { emit("impl-tests".into(), s, &mut out); } }
    for (name, path) in [("README", format!("{}/README.md", repo)), ("macros-doc", format!("{}/o2o-macros/src/lib.rs", repo))] {
        let txt = std::fs::read_to_string(&path).unwrap();
        let mut cur: Option<String> = None;
        for line in txt.lines() {
            let t = line.trim_start().trim_start_matches("///").trim_start();
            if t.starts_with("```") {
                if let Some(c) = cur.take() {
                    if let Ok(f) = syn::parse_str::<syn::File>(&c) { let mut v = vec![]; walk_items(&f.items, &mut v); for s in v { emit(name.into(), s, &mut out); } }
                } else if t.contains("rust") && !t.contains("ignore") { cur = Some(String::new()); }
                continue;
            }
            if let Some(c) = cur.as_mut() { c.push_str(line.trim_start().trim_start_matches("///")); c.push('\n'); }
        }
    }
}

const BARE: [&str; 34] = ["owned_into","ref_into","into","from_owned","from_ref","from","map_owned","map_ref","map","owned_try_into","ref_try_into","try_into",
  "owned_into_existing","ref_into_existing","into_existing","try_from_owned","try_from_ref","try_from","try_map_owned","try_map_ref","try_map",
  "owned_try_into_existing","ref_try_into_existing","try_into_existing","child","children","child_parents","parent","ghost","ghosts","where_clause","literal","pattern","type_hint"];
fn basics(name: &str) -> Option<Vec<&'static str>> {
    Some(match name {
        "into" => vec!["owned_into", "ref_into"], "from" => vec!["from_owned", "from_ref"],
        "map_owned" => vec!["from_owned", "owned_into"], "map_ref" => vec!["from_ref", "ref_into"],
        "map" => vec!["from_owned", "from_ref", "owned_into", "ref_into"], "into_existing" => vec!["owned_into_existing", "ref_into_existing"],
        "try_into" => vec!["owned_try_into", "ref_try_into"], "try_from" => vec!["try_from_owned", "try_from_ref"],
        "try_map_owned" => vec!["try_from_owned", "owned_try_into"], "try_map_ref" => vec!["try_from_ref", "ref_try_into"],
        "try_map" => vec!["try_from_owned", "try_from_ref", "owned_try_into", "ref_try_into"], "try_into_existing" => vec!["owned_try_into_existing", "ref_try_into_existing"],
        _ => return None,
    })
}
/// one o2o instruction as (name, args-with-parens or empty)
fn instr_of(a: &syn::Attribute) -> Option<(String, proc_macro2::TokenStream)> {
    let id = a.path().get_ident()?.to_string();
    if !BARE.contains(&id.as_str()) { return None; }
    match &a.meta {
        syn::Meta::Path(_) => Some((id, proc_macro2::TokenStream::new())),
        syn::Meta::List(l) if matches!(l.delimiter, syn::MacroDelimiter::Paren(_)) => { let t = &l.tokens; Some((id, quote::quote!((#t)))) }
        _ => None,
    }
}
fn rewrite_attrs(attrs: &mut Vec<syn::Attribute>, mode: &str, level: &str) {
    let old = std::mem::take(attrs);
    let mut pending: Vec<proc_macro2::TokenStream> = vec![];   // for "group": adjacent instructions merged into one #[o2o(...)]
    let flush = |pending: &mut Vec<proc_macro2::TokenStream>, attrs: &mut Vec<syn::Attribute>| {
        if !pending.is_empty() { let items = std::mem::take(pending); attrs.push(syn::parse_quote!(#[o2o(#(#items),*)])); }
    };
    // an instruction is respelled only where it is valid at the level where it stands: a bare misplaced name is by definition a foreign attribute
    let trait_names = |n: &str| basics(n).is_some() || ["owned_into","ref_into","from_owned","from_ref","owned_into_existing","ref_into_existing","owned_try_into","ref_try_into","try_from_owned","try_from_ref","owned_try_into_existing","ref_try_into_existing"].contains(&n);
    let member_map = |n: &str| trait_names(n) && !n.ends_with("try_into_existing");
    let valid_here = |n: &str| match level {
        "type" => trait_names(n) || ["ghosts", "where_clause", "child_parents"].contains(&n),
        "field" => member_map(n) || ["ghost", "child", "parent"].contains(&n),
        _ => member_map(n) || ["ghost", "ghosts", "literal", "pattern", "type_hint"].contains(&n),
    };
    for a in old {
        let io = instr_of(&a).filter(|(n, _)| mode == "writeout" || valid_here(n));
        match (io, mode) {
            (Some((n, args)), "respell") => { let id = quote::format_ident!("{}", n); attrs.push(syn::parse_quote!(#[o2o(#id #args)])); }
            (Some((n, args)), "group") => { let id = quote::format_ident!("{}", n); pending.push(quote::quote!(#id #args)); }
            (Some((n, args)), "writeout") => {
                let repeat_param = args.to_string().contains("repeat");
                match basics(&n) {
                    Some(bs) if !repeat_param => for b in bs { let id = quote::format_ident!("{}", b); attrs.push(syn::parse_quote!(#[#id #args])); },
                    // ghost / ghosts abbreviate their _owned + _ref pair (which have no bare form)
                    None if (n == "ghost" && level != "type") || (n == "ghosts" && level != "field") => for suf in ["owned", "ref"] { let id = quote::format_ident!("{}_{}", n, suf); attrs.push(syn::parse_quote!(#[o2o(#id #args)])); },
                    _ => attrs.push(a)
                }
            }
            (_, _) => { flush(&mut pending, attrs); attrs.push(a); }
        }
    }
    flush(&mut pending, attrs);
}
fn rewrite(src: &str, mode: &str) -> Option<String> {
    let mut di: syn::DeriveInput = syn::parse_str(src).ok()?;
    rewrite_attrs(&mut di.attrs, mode, "type");
    match &mut di.data {
        syn::Data::Struct(s) => for f in s.fields.iter_mut() { rewrite_attrs(&mut f.attrs, mode, "field"); },
        syn::Data::Enum(e) => for v in e.variants.iter_mut() { rewrite_attrs(&mut v.attrs, mode, "variant"); for f in v.fields.iter_mut() { rewrite_attrs(&mut f.attrs, mode, "field"); } },
        _ => {}
    }
    Some(ts(&di))
}
/// `proj rewrite`: stdin ndjson {id, src} -> {id, srcs: [orig, respelled, grouped, written-out]}
fn rewrite_all() {
    let stdin = std::io::stdin(); let mut out = BufWriter::new(std::io::stdout());
    for line in stdin.lock().lines() {
        let rec: Value = serde_json::from_str(&line.unwrap()).unwrap();
        let src = rec["src"].as_str().unwrap();
        let v: Vec<String> = ["respell", "group", "writeout"].iter().map(|m| rewrite(src, m).unwrap_or_default()).collect();
        writeln!(out, "{}", json!({"id": rec["id"], "origin": rec["origin"], "srcs": [src, v[0], v[1], v[2]]})).unwrap();
    }
}

fn main() {
    let args: Vec<String> = std::env::args().collect();
    if args.len() >= 2 && args[1] == "rewrite" { rewrite_all(); return; }
    if args.len() >= 3 && args[1] == "extract" { extract(&args[2]); return; }
    if args.len() >= 2 && args[1] == "items" { items(); return; }
    let stdin = std::io::stdin();
    let mut out = BufWriter::new(std::io::stdout());
    for line in stdin.lock().lines() {
        let line = line.unwrap();
        if line.trim().is_empty() { continue; }
        let mut rec: Value = serde_json::from_str(&line).expect("ndjson");
        if let Some(runs) = rec["runs"].as_array_mut() {
            for r in runs.iter_mut() {
                if r.is_array() { for x in r.as_array_mut().unwrap() { add_proj(x); } } else { add_proj(r); }
            }
        }
        writeln!(out, "{}", rec).unwrap();
    }
}
