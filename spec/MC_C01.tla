------------------------------ MODULE MC_C01 ------------------------------
EXTENDS O2OStruct, Json
CONSTANTS MaxMembers
VARIABLE in
Init == \E sh \in {"named", "tuple"}, f \in {"same", "struct", "tuple", "bare", "unit"} : in = [shape |-> sh, form |-> f, ms |-> <<>>]
AddMember(it) == Len(in.ms) < MaxMembers /\ in' = [in EXCEPT !.ms = Append(@, it)]
Next == \E it \in Menu : AddMember(it)
Spec == Init /\ [][Next]_in
Emit == WellFormed(in) => PrintT(<<"CASE", ToJson(in)>>)
\* design-level: into_existing writes exactly what into writes; the by-ref flavour designates what the owned one does
\* whenever no ownership-specific ghost is involved
FlavoursAgree == WellFormed(in) =>
   /\ IntoExp(in, "OI") = IEExp(in, "OIE", {}) /\ IntoExp(in, "RI") = IEExp(in, "RIE", {})
   /\ (\A i \in DOMAIN in.ms : in.ms[i] \notin {"gowned", "gref"}) => (IntoExp(in, "OI") = IntoExp(in, "RI") /\ FromExp(in, "FO") = FromExp(in, "FR"))
\* every counterpart leaf is designated at most once
NoClash == WellFormed(in) => \A k \in Kinds \ {"FO","FR"} : \A a, b \in IntoExp(in, k) : a.leaf = b.leaf => a = b
=============================================================================
