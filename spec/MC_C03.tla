------------------------------ MODULE MC_C03 ------------------------------
(* Generator of flattened struct inputs: members with child paths in every order (adversarial prefix names a / ab),
   struct-level ghosts addressed by child path; plus the algorithm model's prediction for each input. *)
EXTENDS O2OFlatten, Json
CONSTANTS MaxMembers, MaxGhosts, AllItems, TNs
PathsDef == { <<>>, <<"a">>, <<"ab">>, <<"a","c">>, <<"a","c","d">>, <<"ab","e">> }
GPathsDef == { <<"a">>, <<"a","c">>, <<"g">>, <<"h">>, <<"g","k">> }       \* ghosts in nodes members also use, and in nodes only ghosts use (several of them: C19)
Items == {"none", "expr", "ren", "cded"}       \* cded: default #[child(zz)] written first + #[child(D| path)] dedicated to each counterpart
VARIABLE in
Init == \E gs \in UNION {[1..n -> GPathsDef] : n \in 0..MaxGhosts}, t \in TNs : in = [ms |-> <<>>, gs |-> [j \in DOMAIN gs |-> [path |-> gs[j]]], tn |-> t]
Add(p, it) == Len(in.ms) < MaxMembers /\ (it = "cded" => p # <<>>) /\ in' = [in EXCEPT !.ms = Append(@, [path |-> p, it |-> it])]
Next == \E p \in PathsDef, it \in Items : Add(p, it)
Spec == Init /\ [][Next]_in
\* items vary on every member only when AllItems; otherwise on the first member only (keeps the quick scope small)
Canon == AllItems \/ \A i \in DOMAIN in.ms : i > 1 => in.ms[i].it = "none"
\* the tuple-node variant of an input exists only when the node ab.e has a member
Emit == (WellFormed(in) /\ Canon /\ (in.tn => \E i \in DOMAIN in.ms : in.ms[i].path = TupleNode)) => PrintT(<<"CASE", ToJson([in EXCEPT !.gs = in.gs] @@ [dup |-> DupConstruct(FieldsOf(in))])>>)
\* design-level: every leaf of the counterpart tree is designated at most once; into writes every leaf of D
NoClash == WellFormed(in) => \A a, b \in IntoExp(in) : a.leaf = b.leaf => a = b
=============================================================================
