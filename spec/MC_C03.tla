------------------------------ MODULE MC_C03 ------------------------------
EXTENDS O2OFlatten, Json
CONSTANTS MaxMembers
PathsDef == { <<>>, <<"a">>, <<"ab">>, <<"a","c">>, <<"a","c","d">>, <<"ab","e">> }      \* "a"/"ab": adversarial prefix names
Items == {"none", "expr"}
VARIABLE in
Init == in = [ms |-> <<>>]
Add(p, it) == Len(in.ms) < MaxMembers /\ in' = [in EXCEPT !.ms = Append(@, [path |-> p, it |-> it])]
Next == \E p \in PathsDef, it \in Items : Add(p, it)
Spec == Init /\ [][Next]_in
\* to keep the quick scope small: items vary only on the first member
Canon == \A i \in DOMAIN in.ms : i > 1 => in.ms[i].it = "none"
Emit == (WellFormed(in) /\ Canon) => PrintT(<<"CASE", ToJson(in)>>)
=============================================================================
