SPECIFICATION Spec
CONSTANTS
  Mode = "trait"
  MaxLen = 2
  RepChoices = {{}, {"vars"}, {"update"}}
  OwnChoices = {{}, {"vars"}, {"update"}}
  TNames = {"from_owned", "try_from_owned"}
INVARIANTS FoldOk Emit
CHECK_DEADLOCK FALSE
