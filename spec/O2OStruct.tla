----------------------------- MODULE O2OStruct -----------------------------
(* C01 / C07 / C08 for non-flattened structs: what every conversion must deliver, leaf by leaf.
   Written from README.md and the property statements (DESIGN Appendix B), not from expand.rs.

   Abstract input
     in == [shape |-> "named" | "tuple" | "unit",                      \* the deriving struct
            form  |-> "same" | "struct" | "tuple" | "bare" | "unit",   \* how the counterpart is written: no hint / as {} / as () / (..) / as Unit
            ms    |-> Seq(Item),                                       \* member-level instruction of member i
            sg    |-> Nat, sgm |-> "both" | "split" | "ded",           \* struct-level ghosts entries (counterpart-only leaves x1..); "ded": a default
                                                                       \* #[ghosts] with other values written first + one dedicated to each counterpart (they win)
            vars  |-> 0..2, upd |-> BOOLEAN, ret |-> BOOLEAN]          \* trait-instruction parameters (C08)
   Values are symbolic strings: "S.<member>" (leaf of the deriving struct), "D.<leaf>" (leaf of the counterpart),
   "P.<leaf>" (leaf of a pre-existing destination), "U.<leaf>" (leaf of the ..update base), "R.<leaf>" (leaf of the
   value of a `return` expression), "t<i>(x)" (member i's inline expression applied to x), "g<i>()" (ghost default). *)
EXTENDS O2OSyntax, TLC

Menu == {"none", "ren", "ded", "expr", "renexpr", "at", "var", "astype", "astyperen", "ghostd", "ghostb", "gowned", "gref"}
\* "ded": a default rename to a member that does not exist, written FIRST, and renames dedicated to each counterpart type (they must win)
N2S(i) == ToString(i)

EffForm(in) == CASE in.form = "same" -> in.shape
                 [] in.form = "struct" -> "named"
                 [] in.form \in {"tuple", "bare"} -> "tuple"
                 [] in.form = "unit" -> "unit"

OwnedKinds == {"OI", "FO", "OIE"}
GhostFor(it, k) == \/ it \in {"ghostd", "ghostb"}
                   \/ it = "gowned" /\ k \in OwnedKinds
                   \/ it = "gref"   /\ k \notin OwnedKinds
AnyGhost(it)  == it \in {"ghostd", "ghostb", "gowned", "gref"}
HasName(it)   == it \in {"ren", "ded", "renexpr", "astyperen"}
HasAction(it) == it \in {"expr", "renexpr"}
IsNum(it)     == it \in {"astype", "astyperen"}

\* own member designator and counterpart member designator (strings as they appear in observations)
Own(in, i) == IF in.shape = "named" THEN "s" \o N2S(i) ELSE N2S(i - 1)
\* same position = position among the members that have a counterpart leaf at all (DESIGN 8.1)
HasLeaf(it) == it \notin {"ghostd", "ghostb"}
Pos(in, i) == Cardinality({j \in 1..(i-1) : HasLeaf(in.ms[j])})
NLeafMembers(in) == Cardinality({j \in DOMAIN in.ms : HasLeaf(in.ms[j])})
CM(in, i) ==
  IF EffForm(in) = "named"
  THEN IF HasName(in.ms[i]) THEN "r" \o N2S(i) ELSE "s" \o N2S(i)     \* same name by default (named shape only)
  ELSE N2S(Pos(in, i))                                                  \* same position; an explicit index names that position
SGLeaf(in, j) == IF EffForm(in) = "named" THEN "x" \o N2S(j) ELSE N2S(NLeafMembers(in) + j - 1)
Extra(in) == IF EffForm(in) = "named" THEN "extra" ELSE N2S(NLeafMembers(in) + in.sg)

\* leaves of the counterpart type D as the author declares it, and of DX (= D plus a leaf no instruction mentions)
BaseLeaves(in) == IF EffForm(in) = "unit" THEN {}
                  ELSE {CM(in, i) : i \in {j \in DOMAIN in.ms : HasLeaf(in.ms[j])}} \cup {SGLeaf(in, j) : j \in 1..in.sg}
DXLeaves(in) == IF EffForm(in) = "unit" THEN {} ELSE BaseLeaves(in) \cup {Extra(in)}
DLeaves(in)  == IF in.upd THEN DXLeaves(in) ELSE BaseLeaves(in)
SLeaves(in)  == {Own(in, i) : i \in DOMAIN in.ms}

FirstMapped(in) == First(LAMBDA j : ~AnyGhost(in.ms[j]), Len(in.ms))
Tag(i, x) == "t" \o N2S(i) \o "(" \o x \o ")"
VarVal(in, j, side) == Tag(100 + j, side \o (IF side = "D." THEN CM(in, FirstMapped(in)) ELSE Own(in, FirstMapped(in))))

\* ---- what the author must respect for the mapping to make sense at all (everything else is C15/C16 material) ----
WellFormed(in) ==
  /\ (in.shape = "unit") = (in.ms = <<>>)
  /\ in.shape = "unit" => in.form \in {"same", "unit"} /\ in.sg = 0 /\ ~in.upd /\ in.vars = 0
  /\ in.shape = "tuple" /\ EffForm(in) = "named" =>
        \A i \in DOMAIN in.ms : HasName(in.ms[i]) \/ AnyGhost(in.ms[i])                 \* class 9 otherwise
  /\ in.shape = "tuple" /\ EffForm(in) = "named" => \A i \in DOMAIN in.ms : in.ms[i] \notin {"gowned", "gref"}
  /\ EffForm(in) = "unit" => (\A i \in DOMAIN in.ms : in.ms[i] = "ghostd") /\ in.sg = 0
  /\ EffForm(in) = "tuple" => \A i \in DOMAIN in.ms : in.ms[i] \notin {"gowned", "gref"}   \* keeps positions independent of the kind
  /\ (\E i \in DOMAIN in.ms : in.ms[i] = "ded") => in.form # "bare"                      \* a dedicated instruction names its type by a path
  /\ (\E i \in DOMAIN in.ms : in.ms[i] \in {"at", "var"}) => FirstMapped(in) # 0 /\ in.ms[FirstMapped(in)] \in {"none", "ren"}
  /\ (\E i \in DOMAIN in.ms : in.ms[i] = "var") <=> in.vars >= 1                          \* a var is declared iff it is used
  /\ in.vars >= 1 => FirstMapped(in) # 0
  /\ (\E i \in DOMAIN in.ms : in.ms[i] = "ghostb") => in.upd                              \* class 7 otherwise
  /\ in.upd => in.shape = "named" /\ EffForm(in) = "named"                                \* functional update needs braces
  /\ in.sg > 0 => EffForm(in) # "unit"
  /\ in.sgm = "ded" => in.form # "bare" /\ \A i \in DOMAIN in.ms : in.ms[i] \notin {"gowned", "gref"}
  /\ in.ret => in.sg = 0 /\ in.vars = 0 /\ ~in.upd

\* ---- denotation ----
GhostVal(in, i) == IF in.ms[i] = "ghostb" THEN "U." \o Own(in, i) ELSE "g" \o N2S(i) \o "()"
FromLeaf(in, i, k) ==
  LET it == in.ms[i] IN
  IF GhostFor(it, k) THEN GhostVal(in, i)
  ELSE IF it = "at" THEN Tag(i, "D." \o CM(in, FirstMapped(in)))
  ELSE IF it = "var" THEN "p(" \o VarVal(in, 1, "D.") \o ",D." \o CM(in, i) \o ")"
  ELSE IF HasAction(it) THEN Tag(i, "D." \o CM(in, i))
  ELSE "D." \o CM(in, i)
FromExp(in, k) == IF in.ret THEN {[leaf |-> Own(in, i), val |-> "R." \o Own(in, i)] : i \in DOMAIN in.ms}
                  ELSE {[leaf |-> Own(in, i), val |-> FromLeaf(in, i, k)] : i \in DOMAIN in.ms}

IntoVal(in, i) ==
  LET it == in.ms[i] IN
  IF it = "at" THEN Tag(i, "S." \o Own(in, FirstMapped(in)))
  ELSE IF it = "var" THEN "p(" \o VarVal(in, 1, "S.") \o ",S." \o Own(in, i) \o ")"
  ELSE IF HasAction(it) THEN Tag(i, "S." \o Own(in, i))
  ELSE "S." \o Own(in, i)
Mapped(in, k) == {i \in DOMAIN in.ms : ~GhostFor(in.ms[i], k)}
SGVal(in, j, k) == IF in.sgm \in {"both", "ded"} \/ k \in OwnedKinds THEN "gx" \o N2S(j) \o "()" ELSE "gy" \o N2S(j) \o "()"
\* a member that is ghost for one ownership only has its counterpart leaf supplied by ghosts_owned / ghosts_ref
Supplied(in, k) == {[leaf |-> CM(in, i), val |-> (IF in.ms[i] = "gowned" THEN "go" ELSE "gr") \o N2S(i) \o "()"] :
                      i \in {j \in DOMAIN in.ms : in.ms[j] \in {"gowned", "gref"} /\ GhostFor(in.ms[j], k)}}
Written(in, k) == {[leaf |-> CM(in, i), val |-> IntoVal(in, i)] : i \in Mapped(in, k)}
                  \cup {[leaf |-> SGLeaf(in, j), val |-> SGVal(in, j, k)] : j \in 1..in.sg}
                  \cup Supplied(in, k)
Rest(pref, all, W) == {[leaf |-> o, val |-> pref \o o] : o \in {x \in all : \A w \in W : w.leaf # x}}
IntoExp(in, k) == IF EffForm(in) = "unit" THEN {}
                  ELSE IF in.ret THEN {[leaf |-> o, val |-> "R." \o o] : o \in DLeaves(in)}
                  ELSE Written(in, k) \cup Rest("U.", DLeaves(in), Written(in, k))
\* IntoExisting: the mapped leaves as Into, every other leaf of the existing value keeps what it held ("P.<leaf>")
IEExp(in, k) == IF EffForm(in) = "unit" THEN {}
                ELSE IF in.ret THEN {[leaf |-> o, val |-> "R." \o o] : o \in DXLeaves(in)}
                ELSE Written(in, k) \cup Rest("P.", DXLeaves(in), Written(in, k))

Expected(in, k) == IF IsFrom(k) THEN FromExp(in, k) ELSE IF IsIE(k) THEN IEExp(in, k) ELSE IntoExp(in, k)

\* the `?` sites of the fallible twin: members whose inline expression is fallible there
\* (a quick `return` replaces the whole body: no member expression is evaluated, so there is no site)
Sites(in, k) == IF in.ret THEN {} ELSE {i \in Mapped(in, k) : HasAction(in.ms[i])}

\* vars(...) -- C08: evaluated once each, in declaration order, before any member expression
VarsPrefix(in) == [j \in 1..in.vars |-> "v" \o N2S(j)]

\* ---- the cell of the product an observation belongs to (for known findings) ----
Cell(in, k, f) == [shape |-> in.shape, form |-> in.form, eff |-> EffForm(in), kind |-> k, fallible |-> f,
                   ghost_before_mapped |-> \E i, j \in DOMAIN in.ms : i < j /\ ~HasLeaf(in.ms[i]) /\ HasLeaf(in.ms[j]),
                   action_no_name |-> \E i \in DOMAIN in.ms : in.ms[i] \in {"expr", "at", "var", "astype"},
                   items |-> {in.ms[i] : i \in DOMAIN in.ms}]
=============================================================================
