----------------------------- MODULE O2OStruct -----------------------------
(* C01/C07 (non-flattened structs): what every conversion must deliver, leaf by leaf.
   Written from README.md and the property statements (DESIGN Appendix B). *)
EXTENDS O2OSyntax, TLC

\* input == [shape |-> "named"|"tuple", form |-> "same"|"struct"|"tuple"|"bare"|"unit", ms |-> Seq(item)]
Menu == {"none", "ren", "expr", "renexpr", "at", "ghostd"}
N2S(i) == ToString(i)

EffForm(in) == CASE in.form = "same" -> in.shape
                 [] in.form = "struct" -> "named"
                 [] in.form \in {"tuple", "bare"} -> "tuple"
                 [] in.form = "unit" -> "unit"

GhostFor(it, k) == \/ it = "ghostd"
                   \/ it = "gowned" /\ k \in Appl("ghost_owned")
                   \/ it = "gref"   /\ k \in Appl("ghost_ref")
HasName(it)   == it \in {"ren", "renexpr"}
HasAction(it) == it \in {"expr", "renexpr", "at"}

\* own member designator and counterpart member designator (strings as they appear in observations)
Own(in, i) == IF in.shape = "named" THEN "s" \o N2S(i) ELSE N2S(i - 1)
Pos(in, i, k) == Cardinality({j \in 1..(i-1) : ~GhostFor(in.ms[j], k)})
CM(in, i, k) ==
  IF EffForm(in) = "named"
  THEN IF HasName(in.ms[i]) THEN "r" \o N2S(i) ELSE "s" \o N2S(i)     \* same name by default (only for named shape)
  ELSE N2S(Pos(in, i, k))                                               \* same position (choice 8.1); explicit index = that position

\* first member that is mapped for kind k (the "at" item reads it through @)
FirstMapped(in, k) == First(LAMBDA j : ~GhostFor(in.ms[j], k), Len(in.ms))

Tag(i, x) == "t" \o N2S(i) \o "(" \o x \o ")"

\* ---- well-formedness of the abstract input (what the author must respect) ----
WellFormed(in) ==
  /\ Len(in.ms) >= 1
  /\ in.shape = "tuple" /\ EffForm(in) = "named" =>
        \A i \in DOMAIN in.ms : HasName(in.ms[i]) \/ in.ms[i] = "ghostd"            \* class 9 otherwise
  /\ EffForm(in) = "unit" => \A i \in DOMAIN in.ms : in.ms[i] = "ghostd"
  /\ EffForm(in) = "tuple" =>                                                       \* ghosts only trailing (8.1 ambiguity excluded)
        \A i, j \in DOMAIN in.ms : i < j /\ in.ms[i] \in {"ghostd", "gowned", "gref"} => in.ms[j] \in {"ghostd", "gowned", "gref"}
  /\ (\E i \in DOMAIN in.ms : in.ms[i] = "at") => in.ms[1] \in {"none", "ren", "expr", "renexpr"}   \* @.<first member> must exist on both sides
  /\ (\E i \in DOMAIN in.ms : in.ms[i] = "at") => EffForm(in) # "unit"

\* ---- denotation ----
\* From: value of own member i, given counterpart leaves "D.<m>"
FromLeaf(in, i, k) ==
  LET it == in.ms[i] IN
  IF GhostFor(it, k) THEN "g" \o N2S(i) \o "()"
  ELSE IF it = "at" THEN Tag(i, "D." \o CM(in, 1, k))
  ELSE IF HasAction(it) THEN Tag(i, "D." \o CM(in, i, k))
  ELSE "D." \o CM(in, i, k)
FromExp(in, k) == {[leaf |-> Own(in, i), val |-> FromLeaf(in, i, k)] : i \in DOMAIN in.ms}

\* Into / IntoExisting: leaves of the counterpart written from own leaves "S.<m>"
IntoVal(in, i) ==
  LET it == in.ms[i] IN
  IF it = "at" THEN Tag(i, "S." \o Own(in, 1))
  ELSE IF HasAction(it) THEN Tag(i, "S." \o Own(in, i))
  ELSE "S." \o Own(in, i)
Mapped(in, k) == {i \in DOMAIN in.ms : ~GhostFor(in.ms[i], k)}
IntoExp(in, k) == {[leaf |-> CM(in, i, k), val |-> IntoVal(in, i)] : i \in Mapped(in, k)}
\* IntoExisting additionally leaves every other leaf as it was ("P.<leaf>"); the harness reports them all
IEExp(in, k, others) == IntoExp(in, k) \cup {[leaf |-> o, val |-> "P." \o o] : o \in others}

Expected(in, k, others) ==
  IF IsFrom(k) THEN FromExp(in, k) ELSE IF IsIE(k) THEN IEExp(in, k, others) ELSE IntoExp(in, k)
=============================================================================
