SPECIFICATION Spec
CONSTANTS
  MaxTraits = 2
  MaxTAttrs = 0
  MaxMembers = 2
  MaxVFields = 0
  VFMenu = {}
  MaxMAttrs = 1
  DTs = {"struct"}
  Shapes = {"named", "tuple"}
  TNames = {"map", "into_existing", "from_owned", "ref_into"}
  Hints = {"-", "struct"}
  TMenu = {"ghosts"}
  MMenu = {"map", "ghost_d", "ghost_owned_d", "ghost_ref_d", "parent0", "parentp", "parentp_idx", "parentp_untyped", "parentp_untyped2", "parentp_untyped_deep"}
  FixedTraits <- NoTraits
  SpellAll = FALSE
  TCps = {"-"}
  MCps = {"-", "A"}
INVARIANT Emit
CHECK_DEADLOCK FALSE
