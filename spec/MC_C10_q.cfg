SPECIFICATION Spec
CONSTANTS
  MaxLen = 3
  MaxDepth = 2
INVARIANT Emit
CHECK_DEADLOCK FALSE
