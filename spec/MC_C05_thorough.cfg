SPECIFICATION Spec
CONSTANT MaxLen = 3
INVARIANTS Emit InvNonInterference InvOtherCounterpart
CHECK_DEADLOCK FALSE
