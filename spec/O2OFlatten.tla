----------------------------- MODULE O2OFlatten -----------------------------
(* C03 (child paths): requirement layer.  A flat struct S whose members carry #[child(p)];
   the counterpart D is a tree of named structs.  Written from README "Flatened children". *)
EXTENDS O2OSyntax, TLC

\* input == [ms |-> Seq([path |-> Seq(STRING), it |-> "none"|"ren"|"expr"])]
N2S(i) == ToString(i)
RECURSIVE Join(_)
Join(p) == IF p = <<>> THEN "" ELSE IF Len(p) = 1 THEN p[1] ELSE p[1] \o "." \o Join(Tail(p))
Dot(p, m) == IF p = <<>> THEN m ELSE Join(p) \o "." \o m

Own(i) == "s" \o N2S(i)
CM(in, i) == IF in.ms[i].it = "ren" THEN "r" \o N2S(i) ELSE "s" \o N2S(i)
Tag(i, x) == "t" \o N2S(i) \o "(" \o x \o ")"
Leaf(in, i) == Dot(in.ms[i].path, CM(in, i))               \* where member i lives in the counterpart

Prefix(p, n) == SubSeq(p, 1, n)
Nodes(in) == UNION {{Prefix(in.ms[i].path, n) : n \in 1..Len(in.ms[i].path)} : i \in DOMAIN in.ms}   \* every intermediate struct

FromExp(in) == {[leaf |-> Own(i), val |-> IF in.ms[i].it = "expr" THEN Tag(i, "D." \o Leaf(in, i)) ELSE "D." \o Leaf(in, i)] : i \in DOMAIN in.ms}
IntoExp(in) == {[leaf |-> Leaf(in, i), val |-> IF in.ms[i].it = "expr" THEN Tag(i, "S." \o Own(i)) ELSE "S." \o Own(i)] : i \in DOMAIN in.ms}
\* into_existing: every other leaf of the pre-existing nested value keeps its atom
IEExp(in, others) == IntoExp(in) \cup {[leaf |-> o, val |-> "P." \o o] : o \in others}
Expected(in, k, others) == IF IsFrom(k) THEN FromExp(in) ELSE IF IsIE(k) THEN IEExp(in, others) ELSE IntoExp(in)

WellFormed(in) == /\ Len(in.ms) >= 1
                  /\ \A i, j \in DOMAIN in.ms : i # j => Leaf(in, i) # Leaf(in, j)
                  \* a leaf name must not collide with a child node name in the same struct
                  /\ \A i \in DOMAIN in.ms : Append(in.ms[i].path, CM(in, i)) \notin Nodes(in)
=============================================================================
