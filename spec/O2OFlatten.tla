----------------------------- MODULE O2OFlatten -----------------------------
(* C03: flattened (child / parent) mappings.
   Requirement layer: a flat struct S whose members carry #[child(p)]; the counterpart D is a tree of structs.
     in == [ms |-> Seq([path |-> Seq(STRING), it |-> "none" | "ren" | "expr"]),
            gs |-> Seq([path |-> Seq(STRING)])]         \* struct-level ghosts `p@g<j>: {..}` (counterpart-only leaves)
   Algorithm layer: the grouping (first-seen key, stable sort) and the descent cursor of expand.rs as an
   implementation-shaped model, checked by TLC against OnceEach / AllLines; with the repaired sort key as an
   alternative (constant `Repaired` in MC_Group).  Written from README "Flatened children" and DESIGN Appendix B/D. *)
EXTENDS O2OSyntax, TLC, SequencesExt

N2S(i) == ToString(i)
RECURSIVE Join(_)
Join(p) == IF p = <<>> THEN "" ELSE IF Len(p) = 1 THEN p[1] ELSE p[1] \o "." \o Join(Tail(p))
Dot(p, m) == IF p = <<>> THEN m ELSE Join(p) \o "." \o m

Own(i) == "s" \o N2S(i)
\* in.tn (optional, default FALSE): the node ab.e is a TUPLE struct (`ab.e: T as ()` in child_parents); its members name their position
\* (#[map(k)], k = rank among the members of that node in declaration order)
TupleNode == <<"ab", "e">>
InTN(in, i) == ("tn" \in DOMAIN in) /\ in.tn /\ in.ms[i].path = TupleNode
RankTN(in, i) == Cardinality({j \in 1..(i - 1) : in.ms[j].path = TupleNode})
CM(in, i) == IF InTN(in, i) THEN N2S(RankTN(in, i)) ELSE IF in.ms[i].it = "ren" THEN "r" \o N2S(i) ELSE "s" \o N2S(i)
Tag(i, x) == "t" \o N2S(i) \o "(" \o x \o ")"
Leaf(in, i) == Dot(in.ms[i].path, CM(in, i))               \* where member i lives in the counterpart
GLeaf(in, j) == Dot(in.gs[j].path, "g" \o N2S(j))

Prefix(p, n) == SubSeq(p, 1, n)
PrefixesOf(p) == {Prefix(p, n) : n \in 1..Len(p)}
\* every intermediate struct that must exist in the counterpart
Nodes(in) == UNION ({PrefixesOf(in.ms[i].path) : i \in DOMAIN in.ms} \cup {PrefixesOf(in.gs[j].path) : j \in DOMAIN in.gs})

Val(in, i, side) == IF in.ms[i].it = "expr" THEN Tag(i, side) ELSE side
FromExp(in) == {[leaf |-> Own(i), val |-> Val(in, i, "D." \o Leaf(in, i))] : i \in DOMAIN in.ms}
IntoWritten(in) == {[leaf |-> Leaf(in, i), val |-> Val(in, i, "S." \o Own(i))] : i \in DOMAIN in.ms}
                   \cup {[leaf |-> GLeaf(in, j), val |-> "gx" \o N2S(j) \o "()"] : j \in DOMAIN in.gs}
IntoExp(in) == IntoWritten(in)
\* into_existing: every other leaf of the pre-existing nested value keeps its atom
IEExp(in, others) == IntoWritten(in) \cup {[leaf |-> o, val |-> "P." \o o] : o \in others}
Expected(in, k, others) == IF IsFrom(k) THEN FromExp(in) ELSE IF IsIE(k) THEN IEExp(in, others) ELSE IntoExp(in)
Sites(in) == {i \in DOMAIN in.ms : in.ms[i].it = "expr"}

WellFormed(in) == /\ Len(in.ms) >= 1
                  /\ \A i \in DOMAIN in.ms : InTN(in, i) => in.ms[i].it \in {"none", "expr"}
                  /\ \A i, j \in DOMAIN in.ms : i # j => Leaf(in, i) # Leaf(in, j)
                  \* a leaf name must not collide with a child node name in the same struct
                  /\ \A i \in DOMAIN in.ms : Append(in.ms[i].path, CM(in, i)) \notin Nodes(in)
                  /\ \A j \in DOMAIN in.gs : in.gs[j].path # <<>>

\* ------------------------------------------------------------------------------------------
\* Algorithm layer (expand.rs: struct_init_block / struct_init_block_inner / render_child*), on `fields`:
\* the sequence of child paths of the field containers in declaration order (<<>> = a top-level member).
\* ------------------------------------------------------------------------------------------
IsPrefixOfP(q, p) == Len(q) <= Len(p) /\ Prefix(p, Len(q)) = q
Key(fields, i) == IF fields[i] = <<>> THEN <<"#", i>> ELSE fields[i]       \* a top-level member is its own group
FirstSeen(fields, k) == CHOOSE i \in 1..Len(fields) : Key(fields, i) = k /\ \A j \in 1..(i-1) : Key(fields, j) # k
GrIdx(fields, i) == FirstSeen(fields, Key(fields, i))                      \* as implemented: rank of first sight of the full path
FirstSeenPrefix(fields, q) == CHOOSE i \in 1..Len(fields) : IsPrefixOfP(q, fields[i]) /\ \A j \in 1..(i-1) : ~IsPrefixOfP(q, fields[j])
\* repaired: for every prefix of the path the index of the first container inside that subtree, then the index of the first
\* container with exactly this path -- subtrees stay contiguous, and inside one node direct members and sub-nodes keep the
\* order of their first appearance (what the implementation already does whenever it is right, and what positional
\* construction of tuple-like children relies on)
KeyVec(fields, i) == IF fields[i] = <<>> THEN <<i>>
                     ELSE [n \in 1..Len(fields[i]) |-> FirstSeenPrefix(fields, Prefix(fields[i], n))] \o <<FirstSeen(fields, fields[i])>>
RECURSIVE LexLess(_, _)
LexLess(a, b) == IF a = <<>> THEN b # <<>> ELSE IF b = <<>> THEN FALSE
                 ELSE IF a[1] < b[1] THEN TRUE ELSE IF a[1] > b[1] THEN FALSE ELSE LexLess(Tail(a), Tail(b))
Less(fields, repaired, i, j) ==
  IF repaired THEN (LexLess(KeyVec(fields, i), KeyVec(fields, j)) \/ (KeyVec(fields, i) = KeyVec(fields, j) /\ i < j))
  ELSE (GrIdx(fields, i) < GrIdx(fields, j) \/ (GrIdx(fields, i) = GrIdx(fields, j) /\ i < j))
Order(fields, repaired) == SortSeq([i \in 1..Len(fields) |-> i], LAMBDA i, j : Less(fields, repaired, i, j))   \* stable sort

\* the descent: returns <<events, rest>>; ctx = <<path, depth>> or <<>>
RECURSIVE Inner(_, _, _)
Inner(fields, cur, ctx) ==
  IF cur = <<>> THEN <<<<>>, <<>>>>
  ELSE LET f == cur[1]  p == fields[f] IN
    IF ctx # <<>> /\ ~IsPrefixOfP(Prefix(ctx[1], ctx[2]), p) THEN <<<<>>, cur>>            \* break: not in this child
    ELSE LET depth == IF ctx = <<>> THEN 0 ELSE ctx[2] IN
      IF p # <<>> /\ depth < Len(p)
      THEN LET r == Inner(fields, cur, <<p, depth + 1>>)                                   \* OpenChild ... CloseChild
               k == Inner(fields, r[2], ctx)
           IN <<<<[ev |-> "open", path |-> Prefix(p, depth + 1)]>> \o r[1] \o <<[ev |-> "close"]>> \o k[1], k[2]>>
      ELSE LET k == Inner(fields, Tail(cur), ctx) IN <<<<[ev |-> "line", f |-> f]>> \o k[1], k[2]>>
Events(fields, repaired) == Inner(fields, Order(fields, repaired), <<>>)[1]
Opens(ev, q) == Len(SelectSeq(ev, LAMBDA e : e.ev = "open" /\ e.path = q))
AllPrefixes(fields) == UNION {PrefixesOf(fields[i]) : i \in 1..Len(fields)}
OnceEach(fields, repaired) == \A q \in AllPrefixes(fields) : Opens(Events(fields, repaired), q) = 1
AllLines(fields, repaired) == \A i \in 1..Len(fields) : Len(SelectSeq(Events(fields, repaired), LAMBDA e : e.ev = "line" /\ e.f = i)) = 1
\* prediction of the model of the code as it is now (the repaired key, /repo fix for finding F8): TLC proves it is never true in bounds
DupConstruct(fields) == ~OnceEach(fields, TRUE)
\* the key as it was before the repair (kept as a regression model: MC_Group_asis shows TLC's counterexample)
DupConstructOld(fields) == ~OnceEach(fields, FALSE)
\* the order in which the implementation visits members (the hook's on_sorted event is compared with this)
\* field containers: one per member, then one per struct-level ghosts entry whose child path has not been seen before
RECURSIVE NewGhostPaths(_, _, _)
NewGhostPaths(gs, j, seen) == IF j > Len(gs) THEN <<>>
                              ELSE IF gs[j].path \in seen THEN NewGhostPaths(gs, j + 1, seen)
                              ELSE <<gs[j].path>> \o NewGhostPaths(gs, j + 1, seen \cup {gs[j].path})
FieldsOf(in) == [i \in DOMAIN in.ms |-> in.ms[i].path] \o NewGhostPaths(in.gs, 1, {in.ms[i].path : i \in DOMAIN in.ms})
Cell(in, k, f) == [kind |-> k, fallible |-> f, dup_predicted |-> DupConstruct(FieldsOf(in)), ghosts |-> in.gs # <<>>,
                   depth |-> IF in.ms = <<>> THEN 0 ELSE CHOOSE d \in 0..9 : (\E i \in DOMAIN in.ms : Len(in.ms[i].path) = d) /\ \A i \in DOMAIN in.ms : Len(in.ms[i].path) <= d]
=============================================================================
