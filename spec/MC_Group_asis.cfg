SPECIFICATION Spec
CONSTANTS
  MaxFields = 4
  Repaired = FALSE
INVARIANTS InvOnceEach InvAllLines
CHECK_DEADLOCK FALSE
