----------------------------- MODULE Trace_C01 -----------------------------
EXTENDS O2OStruct, Json, IOUtils
Rec == ndJsonDeserialize(IOEnv.TRACE)
VARIABLES l, in
vars == <<l, in>>
ObsSet(r) == {r.obs[i] : i \in DOMAIN r.obs}
Others(r) == {r.others[i] : i \in DOMAIN r.others}
\* fallible flavours must deliver Ok(of the same) on clean vectors: same expectation (C07)
Conforms(r) == ObsSet(r) = Expected(r.in, r.k, Others(r))
Init == l = 1 /\ in = <<>>
Consume == /\ l <= Len(Rec)
           /\ in' = Rec[l].in
           /\ (IF Conforms(Rec[l]) THEN TRUE
               ELSE PrintT(<<"MISMATCH", l, Rec[l].case, Rec[l].in, Rec[l].k, Rec[l].f, "expected", Expected(Rec[l].in, Rec[l].k, Others(Rec[l])), "observed", ObsSet(Rec[l])>>))
           /\ l' = l + 1
Spec == Init /\ [][Consume]_vars
Accepted == TLCGet("stats").diameter - 1 = Len(Rec)
=============================================================================
