----------------------------- MODULE O2OImpls -----------------------------
(* C04: which impls a list of trait instructions must yield. *)
EXTENDS O2OSyntax

\* a trait instruction: [n |-> name, cp |-> counterpart id, err |-> error type id or "-"]
\* one expected impl
ImplOf(t, k) == [trait |-> TraitOf(k, Fallible(t.n)), path |-> TraitPathOf(k, Fallible(t.n)), byref |-> IsRef(k),
                 from |-> IsFrom(k), cp |-> t.cp, err |-> IF Fallible(t.n) THEN t.err ELSE "-",
                 method |-> MethodOf(k, Fallible(t.n))]

\* the bag of impls as a function  impl -> multiplicity
ImplsOfInstr(t) == {ImplOf(t, k) : k \in Appl(t.n)}
AllImplDescs(ts) == UNION {ImplsOfInstr(ts[i]) : i \in DOMAIN ts}
Mult(ts, d) == Cardinality({<<i, k>> \in (DOMAIN ts) \X Kinds : k \in Appl(ts[i].n) /\ ImplOf(ts[i], k) = d})
ImplBag(ts) == [d \in AllImplDescs(ts) |-> Mult(ts, d)]

\* documented misuse visible at this level (C15 classes 2, 3a, 3b)
DupConv(ts) == \E i, j \in DOMAIN ts : i < j /\ Fallible(ts[i].n) = Fallible(ts[j].n) /\ ts[i].cp = ts[j].cp
                                      /\ Appl(ts[i].n) \cap Appl(ts[j].n) # {}
MissingErr(ts) == \E i \in DOMAIN ts : Fallible(ts[i].n) /\ ts[i].err = "-"
SuperfluousErr(ts) == \E i \in DOMAIN ts : ~Fallible(ts[i].n) /\ ts[i].err # "-"
TraitFaults(ts) == (IF ts = <<>> THEN {"no_trait_instr"} ELSE {}) \cup (IF DupConv(ts) THEN {"dup_conv"} ELSE {})
                   \cup (IF MissingErr(ts) THEN {"missing_err"} ELSE {}) \cup (IF SuperfluousErr(ts) THEN {"superfluous_err"} ELSE {})
=============================================================================
