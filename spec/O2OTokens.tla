----------------------------- MODULE O2OTokens -----------------------------
(* C10: placeholders in inline expressions.  Token streams are handled in flattened form (group delimiters are tokens);
   substitution commutes with flattening, so "at every nesting depth" is the statement that it is a token-wise map on the flat
   sequence.  A flat token is <<kind, text, spacing>>, kind in {"i","p","l","g"}, spacing in {"a","j","*"} ("*" = do not care). *)
EXTENDS Naturals, Sequences

IsAt(t)    == t[1] = "p" /\ t[2] = "@"
IsTilde(t) == t[1] = "p" /\ t[2] = "~"

RECURSIVE Subst(_, _, _)
Subst(ts, at, tilde) ==
  IF ts = <<>> THEN <<>>
  ELSE (IF IsAt(ts[1]) THEN at ELSE IF IsTilde(ts[1]) THEN tilde ELSE <<ts[1]>>) \o Subst(Tail(ts), at, tilde)

\* design-level: substitution is a homomorphism -- every non-placeholder token is kept, in order
RECURSIVE NonPlaceholders(_)
NonPlaceholders(ts) == IF ts = <<>> THEN <<>> ELSE (IF IsAt(ts[1]) \/ IsTilde(ts[1]) THEN <<>> ELSE <<ts[1]>>) \o NonPlaceholders(Tail(ts))

TokEq(a, b) == a[1] = b[1] /\ a[2] = b[2] /\ (a[3] = "*" \/ b[3] = "*" \/ a[3] = b[3])
MatchAt(out, p, exp) == /\ p >= 1 /\ p + Len(exp) - 1 <= Len(out)
                        /\ \A i \in 1..Len(exp) : TokEq(out[p + i - 1], exp[i])
RECURSIVE FindFrom(_, _, _)
FindFrom(out, exp, p) == IF p + Len(exp) - 1 > Len(out) THEN 0 ELSE IF MatchAt(out, p, exp) THEN p ELSE FindFrom(out, exp, p + 1)
Occurs(out, exp) == FindFrom(out, exp, 1) # 0

Ident(s) == <<"i", s, "*">>
Dot == <<"p", ".", "*">>
Lit(s) == <<"l", s, "*">>
Colon2 == <<<<"p", ":", "*">>, <<"p", ":", "*">>>>
PathOf(ms) == [i \in 1..(2 * Len(ms)) |-> IF i % 2 = 1 THEN Dot ELSE Ident(ms[i \div 2])]

\* what the placeholders stand for, per position of the expression and direction of the conversion (README "Inline expressions";
\* the names are those of the fixed carrier types the printer uses: S { a, s1 } <-> D { a, rx | s1 | p.q.rx }, enum S { V1 .. } <-> D)
AtFor(conv) == IF conv = "from" THEN <<Ident("value")>> ELSE <<Ident("self")>>
TildeFor(pos, conv) ==
  CASE pos = "member_ren"   -> IF conv = "from" THEN AtFor(conv) \o PathOf(<<"rx">>) ELSE AtFor(conv) \o PathOf(<<"s1">>)
    [] pos = "member"       -> AtFor(conv) \o PathOf(<<"s1">>)
    [] pos = "member_child" -> IF conv = "from" THEN AtFor(conv) \o PathOf(<<"p", "q", "rx">>) ELSE AtFor(conv) \o PathOf(<<"s1">>)
    \* a named struct whose counterpart is hinted `as ()`: From reads the counterpart by position; a tuple struct: both sides by position
    [] pos = "member_hint_t" -> IF conv = "from" THEN AtFor(conv) \o <<Dot, Lit("1")>> ELSE AtFor(conv) \o PathOf(<<"s1">>)
    [] pos = "member_tuple" -> AtFor(conv) \o <<Dot, Lit("1")>>
    [] pos = "payload"      -> <<Ident("f0")>>
    [] pos = "variant_expr" -> IF conv = "from" THEN <<Ident("S")>> \o Colon2 \o <<Ident("V1")>> ELSE <<Ident("D")>> \o Colon2 \o <<Ident("V1")>>
    [] OTHER                -> <<<<"?", "tilde is not defined in this position", "*">>>>
TildeDefined(pos) == pos \in {"member_ren", "member", "member_child", "member_hint_t", "member_tuple", "payload", "variant_expr"}
=============================================================================
