----------------------------- MODULE O2OTokens -----------------------------
(* C10: placeholders in inline expressions.  Token streams are handled in flattened form
   (group delimiters are tokens); substitution commutes with flattening, so "at every nesting
   depth" is the statement that it is a token-wise map on the flat sequence. *)
EXTENDS Naturals, Sequences

\* a flat token: <<kind, text, spacing>>, kind in {"i","p","l","g"}, spacing in {"a","j","*"} ("*" = do not care)
IsAt(t)    == t[1] = "p" /\ t[2] = "@"
IsTilde(t) == t[1] = "p" /\ t[2] = "~"

RECURSIVE Subst(_, _, _)
Subst(ts, at, tilde) ==
  IF ts = <<>> THEN <<>>
  ELSE (IF IsAt(ts[1]) THEN at ELSE IF IsTilde(ts[1]) THEN tilde ELSE <<ts[1]>>) \o Subst(Tail(ts), at, tilde)

TokEq(a, b) == a[1] = b[1] /\ a[2] = b[2] /\ (a[3] = "*" \/ b[3] = "*" \/ a[3] = b[3])
MatchAt(out, p, exp) == /\ p >= 1 /\ p + Len(exp) - 1 <= Len(out)
                        /\ \A i \in 1..Len(exp) : TokEq(out[p + i - 1], exp[i])
Occurs(out, exp) == \E p \in 1..(Len(out) - Len(exp) + 1) : MatchAt(out, p, exp)

Ident(s) == <<"i", s, "*">>
Dot == <<"p", ".", "*">>
\* what the placeholders stand for (struct members; README "Inline expressions")
AtFor(conv)          == IF conv = "from" THEN <<Ident("value")>> ELSE <<Ident("self")>>
TildeFor(conv, path) == AtFor(conv) \o path          \* path = <<Dot, member, Dot, member ...>> on the source object
=============================================================================
