SPECIFICATION Spec
CONSTANTS
  MaxFields = 5
  Repaired = TRUE
INVARIANTS InvOnceEach InvAllLines InvOldCompatible
CHECK_DEADLOCK FALSE
