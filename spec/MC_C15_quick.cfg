SPECIFICATION Spec
CONSTANTS
  MaxTraits = 2
  MaxTAttrs = 1
  MaxMembers = 2
  MaxMAttrs = 1
INVARIANT Emit
CHECK_DEADLOCK FALSE
