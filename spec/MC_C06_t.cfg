SPECIFICATION Spec
CONSTANTS
  MaxTraits = 4
  MaxTAttrs = 1
  MaxMembers = 2
  MaxVFields = 0
  VFMenu = {}
  MaxMAttrs = 1
  DTs = {"struct", "enum"}
  Shapes = {"named", "unit"}
  TNames = {"map"}
  Hints = {"-"}
  TMenu = {"ghosts", "where_clause", "child_parents"}
  MMenu = {"map", "ghost_d", "child", "parent0", "parentp", "literal", "pattern", "type_hint"}
  FixedTraits <- BundleAB
  SpellAll = FALSE
  TCps = {"-", "A", "B"}
  MCps = {"-", "A", "B"}
INVARIANTS EmitProj ProjectionKeepsValidity
CHECK_DEADLOCK FALSE
