SPECIFICATION Spec
CONSTANTS
  Mode = "trait"
  MaxLen = 3
  RepChoices = {{}, {"default_case"}}
  OwnChoices = {{}, {"default_case"}, {"vars"}}
  TNames = {"owned_into"}
INVARIANTS FoldOk Emit
CHECK_DEADLOCK FALSE
