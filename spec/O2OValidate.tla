----------------------------- MODULE O2OValidate -----------------------------
(* C15 (subset of the rule classes): which diagnostics a derive input must get.
   in == [traits |-> Seq([n, cp, err]),
          tattrs |-> Seq([n |-> "ghosts"|"where_clause"|"child_parents", cp]),
          ms     |-> Seq(Seq([n |-> "map"|"ghost_nd"|"ghost_d"|"child", cp]))]          *)
EXTENDS O2OImpls, TLC

CpsOf(in) == {in.traits[i].cp : i \in DOMAIN in.traits}
KindsFor(in, cp) == UNION {Appl(in.traits[i].n) : i \in {j \in DOMAIN in.traits : in.traits[j].cp = cp}}
HasFrom(in, cp) == KindsFor(in, cp) \cap {"FO", "FR"} # {}
HasInto(in, cp) == KindsFor(in, cp) \cap {"OI", "RI"} # {}

AllMemberAttrs(in) == UNION {{in.ms[i][j] : j \in DOMAIN in.ms[i]} : i \in DOMAIN in.ms}
UnknownCp(in) == {[c |-> "unknown_cp", a |-> x.cp] : x \in {y \in ({in.tattrs[i] : i \in DOMAIN in.tattrs} \cup AllMemberAttrs(in)) : y.cp # "-" /\ y.cp \notin CpsOf(in)}}

Count(s, P(_)) == Cardinality({i \in DOMAIN s : P(s[i])})
SecondDefault(in) == {[c |-> "second_default", a |-> n] : n \in {m \in {"ghosts", "where_clause", "child_parents"} : Count(in.tattrs, LAMBDA x : x.n = m /\ x.cp = "-") > 1}}
SecondDedicated(in) == {[c |-> "second_dedicated", a |-> p[1] \o ":" \o p[2]] :
                          p \in {q \in {"ghosts", "where_clause", "child_parents"} \X {"A", "B", "Z"} : Count(in.tattrs, LAMBDA x : x.n = q[1] /\ x.cp = q[2]) > 1}}

\* a ghost without default is a fault for every counterpart that has a From conversion it applies to
GhostNoDefault(in) ==
  {[c |-> "ghost_no_default", a |-> "s" \o ToString(p[1]) \o ":" \o p[2]] :
     p \in {q \in (DOMAIN in.ms) \X CpsOf(in) :
              HasFrom(in, q[2]) /\ \E j \in DOMAIN in.ms[q[1]] : in.ms[q[1]][j].n = "ghost_nd" /\ in.ms[q[1]][j].cp \in {"-", q[2]}}}

ChildParentsFor(in, cp) == \E i \in DOMAIN in.tattrs : in.tattrs[i].n = "child_parents" /\ in.tattrs[i].cp \in {"-", cp}
ChildNoParents(in) ==
  {[c |-> "child_no_parents", a |-> cp] :
     cp \in {q \in CpsOf(in) : HasInto(in, q) /\ ~ChildParentsFor(in, q)
                               /\ \E x \in AllMemberAttrs(in) : x.n = "child" /\ x.cp \in {"-", q}}}

Bare(S) == {[c |-> x, a |-> "-"] : x \in S}
Faults(in) == Bare(TraitFaults(in.traits)) \cup UnknownCp(in) \cup SecondDefault(in) \cup SecondDedicated(in)
              \cup GhostNoDefault(in) \cup ChildNoParents(in)
=============================================================================
