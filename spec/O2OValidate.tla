----------------------------- MODULE O2OValidate -----------------------------
(* C15: which diagnostics a derive input must get (the documented configuration rules), and nothing else.
   in == [dt     |-> "struct" | "enum",  shape |-> "named" | "tuple"      (struct shape; variants are unit / tuple),
          traits |-> Seq([n, cp, err, hint]),          hint \in {"-", "struct"}
          tattrs |-> Seq([n, cp, own]),                type-level instructions other than trait instructions
          ms     |-> Seq(Seq([n, cp, own])),           member-level instructions, per member (field / variant)
          vf     |-> Seq(Seq(Seq([n, cp, own])))]      enum variants only: per variant, per payload field (tuple payload), its instructions
   A fault is [c |-> class, a |-> argument]; the argument is what the diagnostic names (type, member, instruction).
   Written from the property statement, README ("Contents" sections on each instruction) and the error-path tests'
   *intent*; the concrete wording lives in the harness's key phrases only. *)
EXTENDS O2OImpls, TLC

TypeLevelOk   == {"ghosts", "where_clause", "child_parents"}
\* child_parents: #[child_parents(p: P)]; child_parents_q: #[child_parents(q: Q)] (an entry list that does not name `p`);
\* child_parents_pq: #[child_parents(p: P, p.q: Q)].  All three are the instruction child_parents (TLabel); they differ in Entries.
TLabel(n) == IF n \in {"child_parents_q", "child_parents_pq"} THEN "child_parents" ELSE n
Entries(n) == CASE n = "child_parents" -> {"p"} [] n = "child_parents_q" -> {"q"} [] n = "child_parents_pq" -> {"p", "p.q"} [] OTHER -> {}
\* child: #[child(p)]; child_pq: #[child(p.q)] -- every prefix of the path needs an entry
IsChild(n) == n \in {"child", "child_pq"}
Prefixes(n) == IF n = "child_pq" THEN {"p", "p.q"} ELSE {"p"}
\* names that are member instructions and therefore misplaced on a type (README: "member level instructions")
TypeMisplaced == {"parent", "literal", "pattern", "type_hint"}
\* near-misses the documentation anticipates ("Perhaps you meant ...")
TypeMisnamed  == {"children", "ghost", "child"}
MemberOk      == {"map", "map_bare", "map_action", "ghost_nd", "ghost_d", "ghost_owned_d", "ghost_ref_d", "child", "child_pq", "parent0", "parentp", "parentp_idx", "parentp_untyped", "parentp_untyped2", "parentp_untyped_deep",
                  "literal", "pattern", "type_hint", "type_hint_s"}
\* type_hint: #[type_hint(as ())], type_hint_s: #[type_hint(as {})] (the counterpart variant has named fields)
\* map: #[map(name)] -- always with the counterpart member's name; map_bare: #[map] (neither name nor expression); map_action: #[map(~.clone())]
\* (an expression without a name): the last two matter only where a name is needed (class 9)
MapItems == {"map", "map_bare", "map_action"}
\* parentp: #[parent(b1, [map(q2)] b2)] -- a parameterised parent whose child fields are named (no rule broken);
\* parentp_idx: #[parent(0)] -- a parameterised parent whose child field is given by index and carries no name;
\* parentp_untyped: #[parent(b1, [parent(c1)] inner)] -- a nested parent without its type;
\* parentp_untyped2: #[parent(b1, [parent(c1)] inner: Inner, [parent(c2)] inner2)] -- the SECOND nested parent lacks its type;
\* parentp_untyped_deep: #[parent([parent([parent(d1)] deep)] inner: Inner)] -- the type is missing one level further down
UntypedField(n) == CASE n = "parentp_untyped" -> "inner" [] n = "parentp_untyped2" -> "inner2" [] n = "parentp_untyped_deep" -> "deep" [] OTHER -> "-"
IsParentItem(n) == n \in {"parent0", "parentp", "parentp_idx", "parentp_untyped", "parentp_untyped2", "parentp_untyped_deep"}
GhostKinds(n) == CASE n \in {"ghost_nd", "ghost_d"} -> Kinds [] n = "ghost_owned_d" -> {"OI", "FO", "OIE"} [] n = "ghost_ref_d" -> {"RI", "FR", "RIE"} [] OTHER -> {}
MemberMisplaced == {"where_clause"}
MemberMisnamed  == {"children", "child_parents"}
Unknown == {"bogus"}

CpsOf(in) == {in.traits[i].cp : i \in DOMAIN in.traits}
KindsFor(in, cp) == UNION {Appl(in.traits[i].n) : i \in {j \in DOMAIN in.traits : in.traits[j].cp = cp}}
HasFrom(in, cp) == KindsFor(in, cp) \cap {"FO", "FR"} # {}
HasInto(in, cp) == KindsFor(in, cp) \cap {"OI", "RI"} # {}
ToSetQ(s) == {s[i] : i \in DOMAIN s}
\* (payload fields of variants are members too: everything said about member instructions holds for theirs)
VFAttrs(in) == IF "vf" \in DOMAIN in THEN UNION {ToSetQ(in.vf[i][j]) : <<i, j>> \in {p \in (DOMAIN in.vf) \X (1..3) : p[2] \in DOMAIN in.vf[p[1]]}} ELSE {}
AllMemberAttrs(in) == UNION {ToSetQ(in.ms[i]) : i \in DOMAIN in.ms}
Count(s, P(_)) == Cardinality({i \in DOMAIN s : P(s[i])})

\* instructions that are recognised at the level where they stand (only these take part in the semantic rules)
UnsupportedOn(dt) == IF dt = "struct" THEN {"literal", "pattern", "type_hint", "type_hint_s"} ELSE {"parent0", "parentp", "parentp_idx", "parentp_untyped", "parentp_untyped2", "parentp_untyped_deep", "child", "child_pq"}
RecognisedT(in) == {x \in ToSetQ(in.tattrs) : TLabel(x.n) \in TypeLevelOk}
RecognisedM(in, i) == {x \in ToSetQ(in.ms[i]) : x.n \in MemberOk \ UnsupportedOn(in.dt)}

\* class 4: dedicated to a type no trait instruction mentions
UnknownCp(in) == {[c |-> "unknown_cp", a |-> x.cp] :
                    x \in {y \in (RecognisedT(in) \cup UNION {RecognisedM(in, i) : i \in DOMAIN in.ms} \cup VFAttrs(in)) : y.cp # "-" /\ y.cp \notin CpsOf(in)}}

\* class 5: at most one default, at most one dedicated per type -- type level
SecondDefaultT(in) == {[c |-> "second_default", a |-> n] : n \in {m \in TypeLevelOk : Count(in.tattrs, LAMBDA x : TLabel(x.n) = m /\ x.cp = "-") > 1}}
SecondDedicatedT(in) == {[c |-> "second_dedicated", a |-> p[1] \o ":" \o p[2]] :
                          p \in {q \in TypeLevelOk \X {"A", "B", "Z"} : Count(in.tattrs, LAMBDA x : TLabel(x.n) = q[1] /\ x.cp = q[2]) > 1}}
\* class 5, member level: parent on struct fields; literal / pattern / type_hint on enum variants
InstrLabel(n) == IF IsParentItem(n) THEN "parent" ELSE IF n = "type_hint_s" THEN "type_hint" ELSE n
PerMemberUnique(in) == IF in.dt = "struct" THEN {"parent"} ELSE {"literal", "pattern", "type_hint"}
SecondDefaultM(in) == {[c |-> "second_default", a |-> l] :
                         l \in {m \in PerMemberUnique(in) : \E i \in DOMAIN in.ms : Count(in.ms[i], LAMBDA x : InstrLabel(x.n) = m /\ x.cp = "-") > 1}}
SecondDedicatedM(in) == {[c |-> "second_dedicated", a |-> p[1] \o ":" \o p[2]] :
                          p \in {q \in PerMemberUnique(in) \X {"A", "B", "Z"} : \E i \in DOMAIN in.ms : Count(in.ms[i], LAMBDA x : InstrLabel(x.n) = q[1] /\ x.cp = q[2]) > 1}}

\* class 6: misplaced / misnamed / unknown instructions.  A bare attribute o2o does not know is somebody else's attribute
\* (no diagnostic); written inside #[o2o(...)] it is o2o's own and must be reported.
Misplaced(in) == {[c |-> "misplaced", a |-> x.n] : x \in {y \in ToSetQ(in.tattrs) : y.n \in TypeMisplaced}}
                 \cup {[c |-> "misplaced", a |-> x.n] : x \in {y \in (AllMemberAttrs(in) \cup VFAttrs(in)) : y.n \in MemberMisplaced}}
                 \cup {[c |-> "misplaced", a |-> "child"] : x \in {y \in ToSetQ(in.tattrs) : y.n = "child" /\ in.dt = "enum"}}
\* the diagnostic names the instruction the author probably meant (two near-misses with one guess are one diagnostic, DESIGN 8.6)
GuessT(n) == IF n = "ghost" THEN "ghosts" ELSE "child_parents"
GuessM(n) == "child"
Misnamed(in) == {[c |-> "misnamed", a |-> GuessT(x.n)] : x \in {y \in ToSetQ(in.tattrs) : y.n \in TypeMisnamed /\ ~(y.n = "child" /\ in.dt = "enum")}}
                \cup {[c |-> "misnamed", a |-> GuessM(x.n)] : x \in {y \in (AllMemberAttrs(in) \cup VFAttrs(in)) : y.n \in MemberMisnamed /\ ~(y.n = "children" /\ in.dt = "enum")}}
                \cup {[c |-> "misplaced", a |-> "children"] : x \in {y \in (AllMemberAttrs(in) \cup VFAttrs(in)) : y.n = "children" /\ in.dt = "enum"}}
UnknownInstr(in) == {[c |-> "unknown_instr", a |-> x.n] : x \in {y \in (ToSetQ(in.tattrs) \cup AllMemberAttrs(in) \cup VFAttrs(in)) : y.n \in Unknown /\ y.own}}

\* class 7: a ghost without default is a fault for every counterpart that has a From conversion it applies to (struct fields)
GhostNoDefault(in) ==
  IF in.dt # "struct" THEN {} ELSE
  {[c |-> "ghost_no_default", a |-> "s" \o ToString(p[1]) \o ":" \o p[2]] :
     p \in {q \in (DOMAIN in.ms) \X CpsOf(in) :
              HasFrom(in, q[2]) /\ \E x \in RecognisedM(in, q[1]) : x.n = "ghost_nd" /\ x.cp \in {"-", q[2]}}}

\* class 8: child without child_parents (struct fields, for every counterpart that has an Into conversion)
ChildParentsFor(in, cp) == \E x \in RecognisedT(in) : TLabel(x.n) = "child_parents" /\ x.cp \in {"-", cp}
ChildNoParents(in) ==
  IF in.dt # "struct" THEN {} ELSE
  {[c |-> "child_no_parents", a |-> cp] :
     cp \in {q \in CpsOf(in) : HasInto(in, q) /\ ~ChildParentsFor(in, q)
                               /\ \E i \in DOMAIN in.ms : \E x \in RecognisedM(in, i) : IsChild(x.n) /\ x.cp \in {"-", q}}}
\* class 8b: the child_parents instruction that applies to a counterpart (the first dedicated to it, else the first default one -- never both)
\* must have an entry for every prefix of every child path that concerns the counterpart
AppChildParents(in, cp) ==
  LET ok(j) == TLabel(in.tattrs[j].n) = "child_parents"
      d == First(LAMBDA j : ok(j) /\ in.tattrs[j].cp = cp, Len(in.tattrs))
      f == First(LAMBDA j : ok(j) /\ in.tattrs[j].cp = "-", Len(in.tattrs)) IN
  IF d # 0 THEN in.tattrs[d].n ELSE IF f # 0 THEN in.tattrs[f].n ELSE "-"
ChildMissingParent(in) ==
  IF in.dt # "struct" THEN {} ELSE
  {[c |-> "child_missing_parent", a |-> p[2] \o ":" \o p[1]] :
     p \in {q \in CpsOf(in) \X {"p", "p.q"} :
              /\ HasInto(in, q[1]) /\ ChildParentsFor(in, q[1])
              /\ q[2] \notin Entries(AppChildParents(in, q[1]))
              /\ \E i \in DOMAIN in.ms : \E x \in RecognisedM(in, i) : IsChild(x.n) /\ x.cp \in {"-", q[1]} /\ q[2] \in Prefixes(x.n)}}

\* class 9: tuple struct mapped to a named counterpart (`as {}`) needs a member name on every mapped member, for every conversion.
\* A member is excused when it is a ghost or a parent for that counterpart.
\* the mapping instruction that applies to member i for counterpart cp: a dedicated one before a default one, each in writing order
EffMapItem(in, i, cp) ==
  LET s == in.ms[i]
      ok(j) == s[j] \in RecognisedM(in, i) /\ s[j].n \in MapItems
      d == First(LAMBDA j : ok(j) /\ s[j].cp = cp, Len(s))
      f == First(LAMBDA j : ok(j) /\ s[j].cp = "-", Len(s)) IN
  IF d # 0 THEN s[d].n ELSE IF f # 0 THEN s[f].n ELSE "-"
\* does that instruction say which member of a NAMED counterpart a positional member corresponds to?  A From conversion can do with an
\* expression alone; Into / into_existing need the name.
NameOk(item, k) == item = "map" \/ (item = "map_action" /\ IsFrom(k))
\* a member is excused for conversion kind k when it is a ghost for k (ghost_owned / ghost_ref apply to one ownership only) or a parent
ExcusedFor(in, i, cp, k) == \E x \in RecognisedM(in, i) : x.cp \in {"-", cp} /\ (IsParentItem(x.n) \/ k \in GhostKinds(x.n))
TupleNamed(in) ==
  IF in.dt # "struct" \/ in.shape # "tuple" THEN {} ELSE
  {[c |-> "tuple_named_mismatch", a |-> ToString(p[1] - 1)] :
     p \in {q \in (DOMAIN in.ms) \X (DOMAIN in.traits) :
              in.traits[q[2]].hint = "struct"
              /\ \E k \in Appl(in.traits[q[2]].n) : ~ExcusedFor(in, q[1], in.traits[q[2]].cp, k) /\ ~NameOk(EffMapItem(in, q[1], in.traits[q[2]].cp), k)}}
\* class 9 for enum variants: a tuple variant whose counterpart variant is hinted `as {}` needs the field name on every payload field
\* (validate_variant_fields).  The diagnostic names variant and field when the field has no instruction at all, and only the field index when
\* it has one that lacks the name.
EffHint(in, i, cp) ==
  LET s == in.ms[i]
      ok(j) == s[j] \in RecognisedM(in, i) /\ s[j].n \in {"type_hint", "type_hint_s"}
      d == First(LAMBDA j : ok(j) /\ s[j].cp = cp, Len(s))
      f == First(LAMBDA j : ok(j) /\ s[j].cp = "-", Len(s)) IN
  IF d # 0 THEN s[d].n ELSE IF f # 0 THEN s[f].n ELSE "-"
VFItem(in, i, j, cp) ==
  LET s == in.vf[i][j]
      d == First(LAMBDA x : s[x].n \in MapItems /\ s[x].cp = cp, Len(s))
      f == First(LAMBDA x : s[x].n \in MapItems /\ s[x].cp = "-", Len(s)) IN
  IF d # 0 THEN s[d].n ELSE IF f # 0 THEN s[f].n ELSE "-"
VFGhost(in, i, j, cp) == \E x \in ToSetQ(in.vf[i][j]) : x.n = "ghost_d" /\ x.cp \in {"-", cp}
VariantTupleNamed(in) ==
  IF in.dt # "enum" \/ ~("vf" \in DOMAIN in) THEN {} ELSE
  {[c |-> "tuple_named_mismatch", a |-> IF VFItem(in, p[1], p[2], in.traits[p[3]].cp) = "-" THEN "V" \o ToString(p[1]) \o "." \o ToString(p[2] - 1) ELSE ToString(p[2] - 1)] :
     p \in {q \in (DOMAIN in.ms) \X (1..3) \X (DOMAIN in.traits) :
              /\ q[2] \in DOMAIN in.vf[q[1]]
              /\ EffHint(in, q[1], in.traits[q[3]].cp) = "type_hint_s"
              /\ ~VFGhost(in, q[1], q[2], in.traits[q[3]].cp)
              /\ \E k \in Appl(in.traits[q[3]].n) : ~NameOk(VFItem(in, q[1], q[2], in.traits[q[3]].cp), k)}}
\* class 9 for parameterised parents: a child field given by index has no name to go by in a named counterpart (any conversion that is not a From,
\* into_existing included)
ParentFieldUnnamed(in) ==
  IF in.dt # "struct" THEN {} ELSE
  {[c |-> "parent_field_unnamed", a |-> "0"] :
     p \in {q \in (DOMAIN in.ms) \X (DOMAIN in.traits) :
              (\E x \in RecognisedM(in, q[1]) : x.n = "parentp_idx" /\ x.cp \in {"-", in.traits[q[2]].cp})
              /\ Appl(in.traits[q[2]].n) \cap {"OI", "RI", "OIE", "RIE"} # {}
              /\ (in.traits[q[2]].hint = "struct" \/ in.shape = "named")}}
\* class 10: a nested parent must state its type for From conversions (the nested value has to be constructed)
UntypedParent(in) ==
  IF in.dt # "struct" THEN {} ELSE
  {[c |-> "untyped_parent", a |-> UntypedField(y.n)] :
     y \in {x \in UNION {RecognisedM(in, i) : i \in DOMAIN in.ms} :
              UntypedField(x.n) # "-" /\ \E t \in DOMAIN in.traits : x.cp \in {"-", in.traits[t].cp} /\ Appl(in.traits[t].n) \cap {"FO", "FR"} # {}}}

\* class 12: instruction not supported on this kind of member
Unsupported(in) ==
  IF in.dt = "struct" THEN {[c |-> "unsupported_member", a |-> InstrLabel(x.n)] : x \in {y \in AllMemberAttrs(in) : y.n \in {"literal", "pattern", "type_hint", "type_hint_s"}}}
  ELSE {[c |-> "unsupported_member", a |-> "parent"] : x \in {y \in AllMemberAttrs(in) : IsParentItem(y.n)}}

Bare(S) == {[c |-> x, a |-> "-"] : x \in S}
Faults(in) == Bare(TraitFaults(in.traits)) \cup UnknownCp(in) \cup SecondDefaultT(in) \cup SecondDedicatedT(in)
              \cup SecondDefaultM(in) \cup SecondDedicatedM(in) \cup Misplaced(in) \cup Misnamed(in) \cup UnknownInstr(in)
              \cup GhostNoDefault(in) \cup ChildNoParents(in) \cup ChildMissingParent(in) \cup TupleNamed(in) \cup VariantTupleNamed(in) \cup ParentFieldUnnamed(in) \cup UntypedParent(in) \cup Unsupported(in)
FaultKeys(in) == {x.c \o "/" \o x.a : x \in Faults(in)}
=============================================================================
