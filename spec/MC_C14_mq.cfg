SPECIFICATION Spec
CONSTANTS
  Mode = "member"
  MaxLen = 3
  RepChoices = {{}, {"child", "ghost"}}
  OwnChoices = {{}, {"child"}, {"map", "ghost"}}
  TNames = {"x"}
INVARIANTS FoldOk Emit
CHECK_DEADLOCK FALSE
