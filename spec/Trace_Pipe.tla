------------------------------ MODULE Trace_Pipe ------------------------------
(* Trace validation of the derive pipeline: the events the real derive records through its hooks (o2o-impl/src/verif.rs, --cfg o2o_verif)
   must be a behaviour of O2OPipe.  One run of the derive is
       input  (the harness: what the Author actions built, = Author* ; Seal)
       instr level=type   *      on_instr: one per type-level attribute, in source order            -> ParseTypeAttr (trait instructions)
       ( member j ; instr level=member * ) *    on_member / on_instr while a member's attributes are read; the repeat fold step of
                                                member j (ParseMember) is taken after its last instruction and before member j+1
       parsed             the linearisation point "parsed and merged, not yet validated"            -> state compared: merged, traits
       impl *             on_impl: one per rendered impl                                            -> EmitImpl(d)
       end                verdict of the run: ok | err + classes of its diagnostics | panic         -> pc = done | rejected
   System steps the hooks do not see (EndParseType, the fold step, EndParseMembers, Validate, Finish) are silent steps of the trace
   specification; each is enabled only between the events where the code can take it, so the search is a single path.
   A run the specification cannot follow is reported (MISMATCH) and skipped; the next run starts from its `input` record. *)
EXTENDS O2OPipe, Json, IOUtils, TLC
Rec == ndJsonDeserialize(IOEnv.TRACE)
AllNames == TraitNames                     \* the trace specification accepts every documented trait instruction name
VARIABLES l,     \* next record
          cur,   \* number of the member whose attributes are being read (0: none yet)
          k,     \* member-level instr events consumed for member cur
          run    \* id of the current run
tvars == <<in, pc, ti, traits, mi, fctx, merged, errors, pending, impls, l, cur, k, run>>

ToSetS(s) == {s[i] : i \in DOMAIN s}
NormIn(i) == [dt |-> i.dt, shape |-> i.shape, traits |-> i.traits, tattrs |-> i.tattrs, ms |-> i.ms,
              rms |-> [j \in DOMAIN i.rms |-> [own |-> ToSetS(i.rms[j].own), rep |-> i.rms[j].rep, cats |-> ToSetS(i.rms[j].cats), stop |-> i.rms[j].stop, skip |-> i.rms[j].skip]]]
\* what the Author actions of O2OPipe can build
AuthorReachable(i) == /\ Len(i.traits) <= MaxTraits /\ Len(i.rms) <= MaxMembers /\ Len(i.ms) = Len(i.rms)
                      /\ \A t \in DOMAIN i.traits : i.traits[t].n \in TNames /\ i.traits[t].cp \in {"A", "B"} /\ i.traits[t].err \in {"-", "E1"}
                      /\ \A j \in DOMAIN i.rms : i.rms[j].own \subseteq {"map", "child"} /\ i.rms[j].cats = {} /\ i.ms[j] = MView(i.rms[j].own)
                      /\ i.tattrs \in {<< ChildParents >>, <<>>} /\ i.dt = "struct" /\ i.shape = "named"

\* the attribute names member m carries, in the order the harness writes them
Names(m) == (IF m.stop THEN <<"stop_repeat">> ELSE <<>>) \o (IF m.rep THEN <<"repeat">> ELSE <<>>) \o (IF m.skip THEN <<"skip_repeat">> ELSE <<>>)
            \o (IF "child" \in m.own THEN <<"child">> ELSE <<>>) \o (IF "map" \in m.own THEN <<"map">> ELSE <<>>)

Ev(e) == l <= Len(Rec) /\ Rec[l].ev = e
Keep == UNCHANGED <<cur, k, run>>

TrInput == /\ Ev("input") /\ (IF l = 1 THEN TRUE ELSE Rec[l - 1].ev = "end")
           /\ AuthorReachable(NormIn(Rec[l].in))
           /\ in' = NormIn(Rec[l].in) /\ pc' = "parse_type" /\ ti' = 1 /\ traits' = <<>> /\ mi' = 1 /\ fctx' = 0 /\ merged' = <<>>
           /\ errors' = <<>> /\ pending' = {} /\ impls' = <<>> /\ l' = l + 1 /\ cur' = 0 /\ k' = 0 /\ run' = Rec[l].id

TrTypeInstr == /\ Ev("instr") /\ Rec[l].level = "type" /\ pc = "parse_type"
               /\ IF Rec[l].name \in TNames
                  THEN ti <= Len(in.traits) /\ in.traits[ti].n = Rec[l].name /\ ParseTypeAttr
                  ELSE (\E i \in DOMAIN in.tattrs : in.tattrs[i].n = Rec[l].name) /\ UNCHANGED vars
               /\ l' = l + 1 /\ Keep
SEndParseType == /\ ~(Ev("instr") /\ Rec[l].level = "type") /\ EndParseType /\ UNCHANGED l /\ Keep

TrMember == /\ Ev("member") /\ pc = "parse_members" /\ Rec[l].j = mi /\ cur = mi - 1 /\ mi <= Len(in.rms)
            /\ cur' = mi /\ k' = 0 /\ l' = l + 1 /\ UNCHANGED vars /\ UNCHANGED run
TrMemberInstr == /\ Ev("instr") /\ Rec[l].level = "member" /\ pc = "parse_members" /\ cur = mi /\ mi <= Len(in.rms)
                 /\ k < Len(Names(in.rms[mi])) /\ Names(in.rms[mi])[k + 1] = Rec[l].name
                 /\ k' = k + 1 /\ l' = l + 1 /\ UNCHANGED vars /\ UNCHANGED <<cur, run>>
\* the fold step of member mi: after its last attribute
SParseMember == /\ pc = "parse_members" /\ mi <= Len(in.rms) /\ cur = mi /\ k = Len(Names(in.rms[mi]))
                /\ ParseMember /\ UNCHANGED l /\ Keep
SEndParseMembers == /\ cur = Len(in.rms) /\ EndParseMembers /\ UNCHANGED l /\ Keep

AsPairs(m) == {<<m[i].c, m[i].t>> : i \in DOMAIN m}
TrParsed == /\ Ev("parsed") /\ pc = "validate"
            /\ Len(Rec[l].merged) = Len(merged) /\ \A j \in DOMAIN merged : AsPairs(Rec[l].merged[j]) = merged[j]
            /\ Rec[l].traits = Len(traits)
            /\ l' = l + 1 /\ UNCHANGED vars /\ Keep
SValidate == /\ l > 1 /\ Rec[l - 1].ev = "parsed" /\ Validate /\ UNCHANGED l /\ Keep

Matches(d, r) == d.cp = r.cp /\ d.from = IsFrom(r.kind) /\ d.byref = IsRef(r.kind) /\ d.trait = TraitOf(r.kind, r.fallible)
TrImpl == /\ Ev("impl") /\ \E d \in pending : Matches(d, Rec[l]) /\ EmitImpl(d)
          /\ l' = l + 1 /\ Keep
SFinish == /\ Ev("end") /\ Finish /\ UNCHANGED l /\ Keep

TrEnd == /\ Ev("end")
         /\ \/ Rec[l].verdict = "ok" /\ pc = "done"
            \/ Rec[l].verdict = "err" /\ pc = "rejected" /\ {errors[i].c : i \in DOMAIN errors} = ToSetS(Rec[l].classes)
         /\ l' = l + 1 /\ UNCHANGED vars /\ Keep

Regular == TrInput \/ TrTypeInstr \/ SEndParseType \/ TrMember \/ TrMemberInstr \/ SParseMember \/ SEndParseMembers
           \/ TrParsed \/ SValidate \/ TrImpl \/ SFinish \/ TrEnd

\* a run the specification cannot follow: report it and resume at the next run
NextInput(j) == LET C == {i \in (j + 1)..Len(Rec) : Rec[i].ev = "input"} IN IF C = {} THEN Len(Rec) + 1 ELSE CHOOSE i \in C : \A i2 \in C : i <= i2
TrSkip == /\ l <= Len(Rec) /\ ~ENABLED Regular
          /\ PrintT(<<"MISMATCH", ToJson([id |-> run, at |-> l, ev |-> Rec[l], pc |-> pc, mi |-> mi, cur |-> cur, k |-> k,
                                          errors |-> [i \in DOMAIN errors |-> errors[i].c], pending |-> Cardinality(pending)])>>)
          /\ l' = NextInput(l) /\ cur' = 0 /\ k' = 0 /\ run' = "-"
          /\ in' = [dt |-> "struct", shape |-> "named", traits |-> <<>>, tattrs |-> << ChildParents >>, ms |-> <<>>, rms |-> <<>>]
          /\ pc' = "author" /\ ti' = 1 /\ traits' = <<>> /\ mi' = 1 /\ fctx' = 0 /\ merged' = <<>> /\ errors' = <<>> /\ pending' = {} /\ impls' = <<>>

TraceInit == Init /\ l = 1 /\ cur = 0 /\ k = 0 /\ run = "-"
TraceNext == Regular \/ TrSkip
TraceSpec == TraceInit /\ [][TraceNext]_tvars
\* the safety properties of the pipeline are evaluated in every state of every recorded run
Inv == TypeOK /\ NeverPanics /\ FoldIsUnroll /\ ImplsAreDocumented /\ RejectedIffFaulty
\* every record consumed (the harness requires this line: a trace specification that stops early proves nothing)
AllConsumed == l = Len(Rec) + 1 => PrintT(<<"ALLCONSUMED", Len(Rec)>>)
=============================================================================
