SPECIFICATION Spec
CONSTANTS
  MaxVariants = 2
  MaxFields = 1
  VMenu = {"none", "ren", "vexpr", "ghostd", "ghost", "hint_tuple", "hint_struct", "hint_unit", "hint_tuple_ded"}
  FMenu = {"none", "ren", "expr", "renexpr", "swap", "swapexpr", "ghostd"}
  VGs = {0, 1}
  EGs = {0, 1}
  VGModes = {"both", "flav"}
INVARIANTS Emit Symmetric
CHECK_DEADLOCK FALSE
