SPECIFICATION Spec
CONSTANTS
  PipeNames <- AllTraitNames
  MaxTraits = 1
  MaxMembers = 2
  AnyOrder = FALSE
  RepeatConflictIsError = TRUE
INVARIANT EmitInput
CONSTRAINT GenConstraint
CHECK_DEADLOCK FALSE
