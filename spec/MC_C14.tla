------------------------------ MODULE MC_C14 ------------------------------
(* C14 generators: member-level sequences (Mode = "member": struct fields; "variant": enum variants, same fold, other instruction categories) and trait-level sequences (Mode = "trait"), with the theorem that the
   fold as implemented refines the declarative requirement checked on every sequence. *)
EXTENDS O2ORepeat, TLC, Json
CONSTANTS Mode, MaxLen, RepChoices, TNames, OwnChoices
VARIABLE s
Init == s = <<>>
\* RepChoices / OwnChoices are sets of category sets; {} as a repeat choice means `repeat` without categories
AddM(o, r, cs, st, sk) == Len(s) < MaxLen /\ (~r => cs = {}) /\ s' = Append(s, [own |-> o, rep |-> r, cats |-> cs, stop |-> st, skip |-> sk])
AddT(n, o, r, cs, st, sk) == Len(s) < MaxLen /\ (~r => cs = {}) /\ ~(st /\ sk /\ ~r) /\ s' = Append(s, [n |-> n, own |-> o, rep |-> r, cats |-> cs, stop |-> st, skip |-> sk])
\* enum payload fields: `nv` starts a new variant (the first field always does); at most MaxLen fields in all
\* vst: the variant that starts here carries a VARIANT-level #[o2o(stop_repeat)] -- it ends variant-level templates only, the field-level context
\* (permeating or not) is not its business, so VEff ignores it
AddV(nv, o, r, cs, pm, st, sk, vst) == /\ Len(s) < MaxLen /\ (~r => cs = {} /\ ~pm) /\ (s = <<>> => nv) /\ (vst => nv)
                                  /\ s' = Append(s, [v |-> (IF s = <<>> THEN 1 ELSE s[Len(s)].v + (IF nv THEN 1 ELSE 0)), own |-> o, rep |-> r, cats |-> cs, perm |-> pm, stop |-> st, skip |-> sk, vst |-> vst])
Next == IF Mode = "vfield"
        THEN \E nv \in BOOLEAN, o \in OwnChoices, r \in BOOLEAN, cs \in RepChoices, pm \in BOOLEAN, st \in BOOLEAN, sk \in BOOLEAN, vst \in BOOLEAN : AddV(nv, o, r, cs, pm, st, sk, vst)
        ELSE IF Mode \in {"member", "variant"}
        THEN \E o \in OwnChoices, r \in BOOLEAN, cs \in RepChoices, st \in BOOLEAN, sk \in BOOLEAN : AddM(o, r, cs, st, sk)
        ELSE \E n \in TNames, o \in OwnChoices, r \in BOOLEAN, cs \in RepChoices, st \in BOOLEAN, sk \in BOOLEAN : AddT(n, o, r, cs, st, sk)
Spec == Init /\ [][Next]_s
Pairs(S) == {[c |-> x[1], t |-> x[2]] : x \in S}
EmitM == PrintT(<<"CASE", ToJson([ms |-> s, conflict |-> Conflict(s), eff |-> [j \in DOMAIN s |-> Pairs(Eff(s, j))]])>>)
EmitT == PrintT(<<"CASE", ToJson([ts |-> s, conflict |-> TConflict(s), eff |-> [j \in DOMAIN s |-> Pairs(TEff(s, j))]])>>)
EmitV == PrintT(<<"CASE", ToJson([fs |-> s, conflict |-> VConflict(s), eff |-> [j \in DOMAIN s |-> Pairs(VEff(s, j))]])>>)
Emit == s # <<>> => IF Mode \in {"member", "variant"} THEN EmitM ELSE IF Mode = "vfield" THEN EmitV ELSE EmitT
FoldOk == IF Mode \in {"member", "variant"} THEN FoldRefinesRequirement(s) ELSE IF Mode = "vfield" THEN VFoldRefinesRequirement(s) ELSE TFoldRefinesRequirement(s, TNames)
=============================================================================
