------------------------------ MODULE MC_C14 ------------------------------
EXTENDS O2ORepeat, TLC, Json
CONSTANT MaxMembers
VARIABLE ms
Init == ms = <<>>
Add(o, r, st, sk) == Len(ms) < MaxMembers /\ ms' = Append(ms, [own |-> o, rep |-> r, stop |-> st, skip |-> sk])
Next == \E o \in SUBSET Cats, r \in {"-", "all", "map"}, st \in BOOLEAN, sk \in BOOLEAN : Add(o, r, st, sk)
Spec == Init /\ [][Next]_ms
SetSeq(S) == LET n == Cardinality(S) IN IF n = 0 THEN <<>> ELSE IF "child" \in S /\ "map" \in S THEN <<"child", "map">> ELSE IF "map" \in S THEN <<"map">> ELSE <<"child">>
Jsonable == [j \in DOMAIN ms |-> [own |-> SetSeq(ms[j].own), rep |-> ms[j].rep, stop |-> ms[j].stop, skip |-> ms[j].skip]]
CopiedJ == [j \in DOMAIN ms |-> LET C == Eff(ms, j) \ OwnInstrs(ms, j) IN
               (IF \E x \in C : x[1] = "child" THEN <<[c |-> "child", t |-> (CHOOSE x \in C : x[1] = "child")[2]]>> ELSE <<>>) \o
               (IF \E x \in C : x[1] = "map" THEN <<[c |-> "map", t |-> (CHOOSE x \in C : x[1] = "map")[2]]>> ELSE <<>>)]
Emit == ms # <<>> => PrintT(<<"CASE", ToJson([ms |-> Jsonable, conflict |-> Conflict(ms), copied |-> CopiedJ])>>)
FoldOk == FoldRefinesRequirement(ms)
=============================================================================
