SPECIFICATION Spec
CONSTANTS
  MaxMembers = 3
  MaxGhosts = 0
  AllItems = FALSE
INVARIANTS Emit NoClash
CHECK_DEADLOCK FALSE
