------------------------------ MODULE MC_Forms ------------------------------
(* C18: attribute *forms* -- how an attribute can be written at all (word / list with each delimiter / name-value /
   multi-segment paths / foreign attributes), at type level and at member level, for structs and enums. *)
EXTENDS Naturals, Sequences, TLC, Json
TForms == {"from_owned(D)", "from_owned{D}", "from_owned[D]", "from_owned = \"D\"", "from_owned", "o2o(from_owned(D))", "o2o(from_owned{D})", "o2o(from_owned)", "o2o", "o2o()", "o2o = 1",
           "doc = \"x\"", "must_use = \"x\"", "must_use", "deprecated", "repr(C)", "serde::x(a)", "cfg_attr(a, b)", "non_exhaustive", "allow(x = \"y\")",
           "ghosts{a: {1}}", "where_clause[T: Clone]", "child_parents{a: A}", "from_owned(crate::D)", "from_owned(::m::D)", "from_owned(D::<T>)", "from_owned(<D as X>::Y)",
           "from_owned(Self)", "from_owned(super::D)", "from_owned(r#type)", "o2o(allow_unknown)", "o2o(allow_unknown())", "allow_unknown"}
MForms == {"-", "map(x)", "map{x}", "map[x]", "map = \"x\"", "map", "o2o(map(x))", "o2o(map{x})", "doc = \"m\"", "serde(rename = \"q\")", "serde(rename = \"q\", default)", "ghost", "ghost{}",
           "child(a.b)", "child{a.b}", "child(0.1)", "parent", "parent()", "parent{x}", "literal(1)", "o2o(as_type(i32))", "o2o(as_type{i32})", "default", "cfg(test)", "serde::skip"}
VARIABLE f
Init == \E dt \in {"struct", "enum"}, t \in TForms, m \in MForms, base \in BOOLEAN : f = [dt |-> dt, t |-> t, m |-> m, base |-> base]
Next == UNCHANGED f
Spec == Init /\ [][Next]_f
Emit == PrintT(<<"CASE", ToJson(f)>>)
=============================================================================
