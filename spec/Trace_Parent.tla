----------------------------- MODULE Trace_Parent -----------------------------
(* Judge of run-time observations for #[parent] members (real proc-macro, executed): leaves (C03), error propagation through the parent's own
   conversion (C07), vars evaluated once before everything else also in the post-init dialect (C08). *)
EXTENDS O2OParent, Json, IOUtils
Rec == ndJsonDeserialize(IOEnv.TRACE)
VARIABLE l
ObsSet(r) == {r.obs[i] : i \in DOMAIN r.obs}
LeafSymptom(r) ==
  IF r.res # "ok" THEN "unexpected_error"
  ELSE LET E == Expected(r.in, r.k)  O == ObsSet(r) IN
       IF O = E THEN "-"
       ELSE IF {w.leaf : w \in O} # {w.leaf : w \in E} THEN "leaf_set_differs"
       ELSE IF \E w \in E : w \notin O /\ w.val = "P." \o w.leaf THEN "unmapped_leaf_clobbered"
       ELSE IF \E w \in O : w \notin E /\ w.val = "DEFAULT" THEN "parent_member_not_delivered"
       ELSE "wrong_value"
PoisonIdx(vec) == CHOOSE i \in 1..199 : vec = "poison" \o ToString(i)
PoisonSymptom(r) == LET i == PoisonIdx(r.vec) IN
  IF i \in Sites(r.in) THEN (IF r.res = "err" /\ r.errn = i THEN "-" ELSE IF r.res = "ok" THEN "error_swallowed" ELSE "wrong_error")
  ELSE (IF r.res = "ok" THEN "-" ELSE "spurious_error")
IsVar(e) == e[1] = "v"
VarsSymptom(r) ==
  IF r.res # "ok" THEN "-"
  ELSE LET vs == SelectSeq(r.evlog, IsVar) IN
       IF [j \in DOMAIN vs |-> "v" \o ToString(vs[j][2])] # VarsPrefix(r.in) THEN "vars_not_once_in_order"
       ELSE IF vs # <<>> /\ ~IsVar(r.evlog[1]) THEN "var_after_member_expression" ELSE "-"
Symptom(r) == CASE r.prop = "leaf" -> LeafSymptom(r) [] r.prop = "poison" -> PoisonSymptom(r) [] r.prop = "vars" -> VarsSymptom(r) [] r.prop = "CF" -> "does_not_compile"
Report(r) == IF r.prop = "CF" THEN [case |-> r.case, prop |-> r.prop, symptom |-> Symptom(r), cell |-> Cell(r.in, "any", FALSE), errors |-> r.errors]
             ELSE [case |-> r.case, prop |-> r.prop, symptom |-> Symptom(r), cell |-> Cell(r.in, r.k, r.f), vec |-> r.vec, res |-> r.res,
                   expected |-> Expected(r.in, r.k), observed |-> ObsSet(r), evlog |-> r.evlog]
Init == l = 1
Consume == /\ l <= Len(Rec)
           /\ (IF Symptom(Rec[l]) = "-" THEN TRUE ELSE PrintT(<<"MISMATCH", ToJson(Report(Rec[l]))>>))
           /\ l' = l + 1
Spec == Init /\ [][Consume]_l
Accepted == TLCGet("stats").diameter - 1 = Len(Rec)
=============================================================================
