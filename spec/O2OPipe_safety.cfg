SPECIFICATION Spec
CONSTANTS
  MaxTraits = 2
  MaxMembers = 2
  AnyOrder = FALSE
  RepeatConflictIsError = TRUE
INVARIANTS TypeOK ImplsAreDocumented FoldIsUnroll RejectedIffFaulty NeverPanics
CHECK_DEADLOCK FALSE
