SPECIFICATION Spec
CONSTANTS
  PipeNames = {"from_owned", "owned_try_into", "map"}
  MaxTraits = 2
  MaxMembers = 2
  AnyOrder = FALSE
  RepeatConflictIsError = TRUE
INVARIANTS TypeOK ImplsAreDocumented FoldIsUnroll RejectedIffFaulty NeverPanics
CHECK_DEADLOCK FALSE
