SPECIFICATION Spec
CONSTANTS
  Mode = "vfield"
  MaxLen = 3
  RepChoices = {{}, {"ghost"}}
  OwnChoices = {{}, {"map", "ghost"}}
  TNames = {"x"}
INVARIANTS FoldOk Emit
CHECK_DEADLOCK FALSE
