SPECIFICATION Spec
CONSTANTS
  MaxTraits = 1
  MaxTAttrs = 0
  MaxMembers = 2
  MaxVFields = 0
  VFMenu = {}
  MaxMAttrs = 2
  DTs = {"struct"}
  Shapes = {"tuple"}
  TNames = {"map", "from_owned", "owned_into", "into_existing", "try_from_ref"}
  Hints = {"-", "struct"}
  TMenu = {"ghosts"}
  MMenu = {"map", "map_bare", "map_action", "ghost_d", "parent0"}
  FixedTraits <- NoTraits
  SpellAll = FALSE
  TCps = {"-"}
  MCps = {"-", "A"}
INVARIANT Emit
CHECK_DEADLOCK FALSE
