SPECIFICATION Spec
CONSTANTS
  MaxMembers = 1
  MaxPerMember = 2
  TNs = {"from_owned", "owned_into", "ref_into_existing", "owned_try_into"}
  TExtras = {"-", "cp_unit", "ghosts_path", "ghosts_idx"}
  TParams = {"-", "dflt"}
  SMenu = {"map_name", "map_expr", "map_bare", "map_idx", "try_into_name", "ghost_d", "ghost_nd", "parent0", "parentp", "parentp_idx", "child", "as_type", "repeat", "stop_repeat", "skip_repeat", "ghosts", "literal"}
  VMenu = {"map_name", "map_expr", "map_bare", "literal", "pattern", "ghost_d", "ghost_nd", "hint_s", "hint_t", "hint_u", "ghosts", "ghosts_idx", "as_type", "child", "parent0", "repeat", "stop_repeat"}
  FMenu = {"map_name", "map_idx", "map_expr", "ghost_d", "ghost_nd", "child", "parent0", "parentp", "as_type", "repeat", "literal"}
INVARIANT Emit
CHECK_DEADLOCK FALSE
