----------------------------- MODULE Trace_C20 -----------------------------
(* C20 judge: the vocabulary of the generated code.
   record [id, impls: Seq([paths: Seq(STRING), bound: Seq(STRING)]), input_idents: Seq(STRING)]
   Every path of every generated item must be (a) one of the library items the documentation names, through exactly these paths,
   (b) a language / prelude item, or (c) start with a name the item binds itself or a name that occurs in the user's input. *)
EXTENDS Naturals, Sequences, FiniteSets, TLC, Json, IOUtils
Rec == ndJsonDeserialize(IOEnv.TRACE)
VARIABLE l
ToSetS(s) == {s[i] : i \in DOMAIN s}
Library == {"::core::convert::From", "::core::convert::TryFrom", "::core::convert::Into", "::core::convert::TryInto", "::core::result::Result",
            "o2o::traits::IntoExisting", "o2o::traits::TryIntoExisting"}
Prelude == {"Ok", "Default::default", "Self", "self"}
\* a path is [text, lead (written with a leading ::), segs (its segments), user_wrote_leading]
PathOk(p, bound, user) ==
  \/ p.text \in Library
  \/ p.text \in Prelude
  \/ ~p.lead /\ p.segs[1] \in bound
  \/ ~p.lead /\ Len(p.segs) = 1 /\ p.payload_binding           \* f0, f1, ...: the documented binding names of tuple payloads (C02)
  \/ ~p.lead /\ p.segs[1] \in user
  \/ p.lead /\ p.segs[1] \in user /\ p.user_wrote_leading     \* `::m::D` written by the user
BadPaths(r) == UNION {{p \in ToSetS(r.impls[i].paths) : ~PathOk(p, ToSetS(r.impls[i].bound), ToSetS(r.input_idents))} : i \in DOMAIN r.impls}
Symptom(r) ==
  IF BadPaths(r) = {} THEN "-"
  ELSE IF \E p \in BadPaths(r) : p.segs[1] \in {"std", "alloc"} THEN "std_or_alloc_path_introduced"
  ELSE IF \E p \in BadPaths(r) : p.lead THEN "library_item_outside_documented_paths"
  ELSE "name_not_from_user_or_vocabulary"
Init == l = 1
Consume == /\ l <= Len(Rec)
           /\ (IF Symptom(Rec[l]) = "-" THEN TRUE
               ELSE PrintT(<<"MISMATCH", ToJson([id |-> Rec[l].id, symptom |-> Symptom(Rec[l]), bad |-> {p.text : p \in BadPaths(Rec[l])}])>>))
           /\ l' = l + 1
Spec == Init /\ [][Consume]_l
Accepted == TLCGet("stats").diameter - 1 = Len(Rec)
=============================================================================
