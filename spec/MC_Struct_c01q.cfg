SPECIFICATION Spec
CONSTANTS
  MaxMembers = 2
  Items = {"none", "ren", "ded", "expr", "renexpr", "at", "astype", "astyperen", "ghostd", "gowned", "gref"}
  Shapes = {"named", "tuple", "unit"}
  Forms = {"same", "struct", "tuple", "bare", "unit"}
  SGs = {0, 1}
  SGModes = {"both", "split", "ded"}
  VarsSet = {0}
  Upds = {FALSE}
  TupleGhosts = TRUE
  Rets = {FALSE}
INVARIANTS Emit IntoExistingAgrees RefAgreesWithOwned OneDesignationPerLeaf RoundTrip
CHECK_DEADLOCK FALSE
