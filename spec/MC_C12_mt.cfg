SPECIFICATION Spec
CONSTANTS
  Mode = "member"
  MaxLen = 3
INVARIANTS Emit Equivalent
CHECK_DEADLOCK FALSE
