------------------------------ MODULE MC_Soup ------------------------------
(* C16 / C18: "token soup" -- every argument token sequence of length <= MaxLen over an alphabet chosen to stress the
   attribute parsers, in the argument of every instruction name, at every level (type, field, tuple field, enum, variant,
   variant field).  The abstract input is [name, own, toks, pos]; the printer joins tokens with spaces. *)
EXTENDS Naturals, Sequences, TLC, Json
CONSTANTS MaxLen, Alphabet, Names, OwnOnly, Positions
VARIABLE s
Init == \E n \in Names \cup OwnOnly, p \in Positions : s = [name |-> n, own |-> (n \in OwnOnly), toks |-> <<>>, pos |-> p]
Push(t) == Len(s.toks) < MaxLen /\ s' = [s EXCEPT !.toks = Append(@, t)]
Next == \E t \in Alphabet : Push(t)
Spec == Init /\ [][Next]_s
Emit == PrintT(<<"CASE", ToJson(s)>>)
=============================================================================
