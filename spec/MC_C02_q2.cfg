SPECIFICATION Spec
CONSTANTS
  MaxVariants = 1
  MaxFields = 2
  VMenu = {"none", "ren", "hint_tuple", "hint_struct", "hint_unit", "hint_tuple_ded"}
  FMenu = {"none", "ren", "expr", "renexpr", "swap", "swapexpr", "ghostd"}
  VGs = {0, 1}
  EGs = {0}
  VGModes = {"both", "flav"}
INVARIANTS Emit Symmetric
CHECK_DEADLOCK FALSE
