SPECIFICATION Spec
CONSTANTS
  MaxVariants = 1
  MaxFields = 2
  VMenu = {"none", "ren", "hint_tuple", "hint_struct", "hint_unit"}
  FMenu = {"none", "ren", "expr", "ghostd"}
INVARIANTS Emit Symmetric
CHECK_DEADLOCK FALSE
