SPECIFICATION Spec
CONSTANTS
  MaxTraits = 1
  MaxTAttrs = 0
  MaxMembers = 1
  MaxVFields = 2
  VFMenu = {"map", "map_bare", "map_action", "ghost_d", "where_clause", "children", "child_parents", "bogus"}
  MaxMAttrs = 1
  DTs = {"enum"}
  Shapes = {"named"}
  TNames = {"map", "from_owned", "owned_into", "ref_try_into"}
  Hints = {"-"}
  TMenu = {"ghosts"}
  MMenu = {"type_hint", "type_hint_s"}
  FixedTraits <- NoTraits
  SpellAll = FALSE
  TCps = {"-"}
  MCps = {"-", "A", "Z"}
INVARIANT Emit
CHECK_DEADLOCK FALSE
