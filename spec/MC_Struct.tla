------------------------------ MODULE MC_Struct ------------------------------
(* Generator of abstract struct inputs (Author actions) + design-level theorems of O2OStruct,
   checked by TLC on every reachable input.  Serves C01, C07, C08 (and C17/C18/C20 ride on the same stream). *)
EXTENDS O2OStruct, Json
CONSTANTS MaxMembers, Items, Shapes, Forms, SGs, SGModes, VarsSet, Upds, Rets,
          TupleGhosts      \* FALSE: stay out of the cell "ghost member before mapped ones, tuple counterpart" (open findings of C01)
VARIABLE in
Init == \E sh \in Shapes, f \in Forms, sg \in SGs, sgm \in SGModes, v \in VarsSet, u \in Upds, r \in Rets :
          /\ (sg = 0 => sgm = "both")
          /\ in = [shape |-> sh, form |-> f, ms |-> <<>>, sg |-> sg, sgm |-> sgm, vars |-> v, upd |-> u, ret |-> r]
AddMember(it) == /\ Len(in.ms) < MaxMembers /\ in.shape # "unit"
                 /\ in' = [in EXCEPT !.ms = Append(@, it)]
Next == \E it \in Items : AddMember(it)
Spec == Init /\ [][Next]_in
InScope == TupleGhosts \/ EffForm(in) # "tuple" \/ \A i \in DOMAIN in.ms : HasLeaf(in.ms[i])
Emit == WellFormed(in) /\ InScope => PrintT(<<"CASE", ToJson(in)>>)

\* ---- design-level theorems (the specification must not contradict itself) ----
NoGhostKinds(in2) == \A i \in DOMAIN in2.ms : in2.ms[i] \notin {"gowned", "gref"}
\* C07: into_existing designates on the mapped leaves exactly what into designates
IntoExistingAgrees == WellFormed(in) /\ ~in.upd /\ ~in.ret =>
   \A k \in {"OI", "RI"} : LET ke == IF k = "OI" THEN "OIE" ELSE "RIE" IN
        {w \in IEExp(in, ke) : w.leaf # Extra(in)} = IntoExp(in, k)
\* C07: by-reference flavours designate what the owned ones do when no ownership-specific instruction is involved
RefAgreesWithOwned == WellFormed(in) /\ NoGhostKinds(in) /\ in.sgm \in {"both", "ded"} =>
   /\ IntoExp(in, "OI") = IntoExp(in, "RI") /\ FromExp(in, "FO") = FromExp(in, "FR") /\ IEExp(in, "OIE") = IEExp(in, "RIE")
\* C01: every leaf of the result has exactly one designation ("no other field is affected" is the Rest part)
OneDesignationPerLeaf == WellFormed(in) =>
   /\ \A k \in {"OI", "RI"} : /\ {w.leaf : w \in IntoExp(in, k)} = DLeaves(in)
                               /\ \A a, b \in IntoExp(in, k) : a.leaf = b.leaf => a = b
   /\ \A k \in {"OIE", "RIE"} : /\ {w.leaf : w \in IEExp(in, k)} = DXLeaves(in)
                                 /\ \A a, b \in IEExp(in, k) : a.leaf = b.leaf => a = b
   /\ \A k \in {"FO", "FR"} : {w.leaf : w \in FromExp(in, k)} = SLeaves(in)
\* C01: a plain symmetric mapping round-trips: From(Into(x)) = x on members without expressions
RoundTrip == WellFormed(in) /\ ~in.ret /\ ~in.upd =>
   \A i \in DOMAIN in.ms : in.ms[i] \in {"none", "ren"} =>
       /\ [leaf |-> CM(in, i), val |-> "S." \o Own(in, i)] \in IntoExp(in, "OI")
       /\ [leaf |-> Own(in, i), val |-> "D." \o CM(in, i)] \in FromExp(in, "FO")
=============================================================================
