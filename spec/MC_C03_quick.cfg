SPECIFICATION Spec
CONSTANT MaxMembers = 3
INVARIANT Emit
CHECK_DEADLOCK FALSE
