----------------------------- MODULE Trace_C10 -----------------------------
(* C10 judge.  record [id, pos, expr (flat tokens of what the author wrote, tokenised by proc_macro2), verdict,
                       convs: Seq([conv \in {"from","into","ie"}, out: flat tokens of that impl])] *)
EXTENDS O2OTokens, TLC, Json, IOUtils
Rec == ndJsonDeserialize(IOEnv.TRACE)
VARIABLE l
ConvOk(r, c) == Occurs(c.out, Subst(r.expr, AtFor(c.conv), TildeFor(r.pos, c.conv)))
Symptom(r) ==
  IF r.verdict # "ok" THEN "expression_rejected"
  ELSE IF Len(r.convs) = 0 THEN "no_impl_to_look_at"
  ELSE IF \E i \in DOMAIN r.convs : ~ConvOk(r, r.convs[i]) THEN "substituted_expression_not_in_output"
  ELSE "-"
Init == l = 1
Consume == /\ l <= Len(Rec)
           /\ (IF Symptom(Rec[l]) = "-" THEN TRUE
               ELSE PrintT(<<"MISMATCH", ToJson([id |-> Rec[l].id, pos |-> Rec[l].pos, symptom |-> Symptom(Rec[l]),
                         failing |-> {Rec[l].convs[i].conv : i \in {j \in DOMAIN Rec[l].convs : Rec[l].verdict = "ok" /\ ~ConvOk(Rec[l], Rec[l].convs[j])}}])>>))
           /\ l' = l + 1
Spec == Init /\ [][Consume]_l
Accepted == TLCGet("stats").diameter - 1 = Len(Rec)
=============================================================================
