----------------------------- MODULE Trace_C10 -----------------------------
EXTENDS O2OTokens, TLC, Json, IOUtils
Rec == ndJsonDeserialize(IOEnv.TRACE)
VARIABLE l
PathOf(ms) == [i \in 1..(2 * Len(ms)) |-> IF i % 2 = 1 THEN Dot ELSE Ident(ms[i \div 2])]
\* r.convs: sequence of [conv, path (members on the source object), out (flat tokens of that impl), pos]
ConvOk(r, c) == LET exp == Subst(r.expr, AtFor(c.conv), TildeFor(c.conv, PathOf(c.path))) IN
                IF MatchAt(c.out, c.pos, exp) THEN TRUE ELSE Occurs(c.out, exp)
Conforms(r) == r.verdict = "ok" /\ \A i \in DOMAIN r.convs : ConvOk(r, r.convs[i])
Init == l = 1
Consume == /\ l <= Len(Rec)
           /\ (IF Conforms(Rec[l]) THEN TRUE ELSE PrintT(<<"MISMATCH", l, Rec[l].id, Rec[l].src, Rec[l].verdict>>))
           /\ l' = l + 1
Spec == Init /\ [][Consume]_l
Accepted == TLCGet("stats").diameter - 1 = Len(Rec)
=============================================================================
