SPECIFICATION Spec
CONSTANTS
  MaxLen = 2
  CPs = {"Q", "G", "T", "QG", "LL"}
  Errs = {"E2", "EG", "EQG"}
INVARIANTS Emit ShortcutsEqualBasics OrderIndependent NoDupWhenValid CountPerInstr
CHECK_DEADLOCK FALSE
