SPECIFICATION Spec
CONSTANTS
  MaxLen = 2
  CPs = {"Q", "G", "T"}
  Errs = {"E2", "EG"}
INVARIANTS Emit ShortcutsEqualBasics OrderIndependent NoDupWhenValid CountPerInstr
CHECK_DEADLOCK FALSE
