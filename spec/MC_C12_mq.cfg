SPECIFICATION Spec
CONSTANTS
  Mode = "member"
  MaxLen = 2
INVARIANTS Emit Equivalent
CHECK_DEADLOCK FALSE
