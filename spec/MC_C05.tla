------------------------------ MODULE MC_C05 ------------------------------
(* C05 generator: every list of <= MaxLen member instructions (21 mapping names + 3 ghost names) x {default, A, B}. *)
EXTENDS O2OLookup, TLC, Json
CONSTANTS MaxLen
Names == MemberMapNames \cup GhostNames
CPs == {"-", "A", "B"}
VARIABLE instrs
Init == instrs = <<>>
Add(n, cp) == Len(instrs) < MaxLen /\ instrs' = Append(instrs, [n |-> n, cp |-> cp])
Next == \E n \in Names, cp \in CPs : Add(n, cp)
Spec == Init /\ [][Next]_instrs
Emit == PrintT(<<"CASE", ToJson([instrs |-> instrs])>>)
InvNonInterference == NonInterference(instrs, {"A", "B"})
InvOtherCounterpart == OtherCounterpartIrrelevant(instrs, {"A", "B"})
=============================================================================
