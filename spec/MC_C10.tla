------------------------------ MODULE MC_C10 ------------------------------
(* Generator of well-nested lexeme sequences used as inline expressions, for every position that accepts one. *)
EXTENDS Naturals, Sequences, TLC, Json
CONSTANTS MaxLen, MaxDepth
Lexemes == {"x", "1", "\"a@~b\"", "'~'", "'a", "::", "=>", "..=", "&&", ".", "!", "|", "?", "@", "~"}
Opens == {"(", "[", "{"}
CloseOf(o) == IF o = "(" THEN ")" ELSE IF o = "[" THEN "]" ELSE "}"
VARIABLES lex, stack
vars == <<lex, stack>>
Init == lex = <<>> /\ stack = <<>>
Push(x) == Len(lex) + Len(stack) < MaxLen /\ lex' = Append(lex, x) /\ UNCHANGED stack
Open(o) == Len(lex) + Len(stack) + 1 < MaxLen /\ Len(stack) < MaxDepth /\ lex' = Append(lex, o) /\ stack' = <<CloseOf(o)>> \o stack
Close == stack # <<>> /\ lex' = Append(lex, stack[1]) /\ stack' = Tail(stack)
Next == (\E x \in Lexemes : Push(x)) \/ (\E o \in Opens : Open(o)) \/ Close
Spec == Init /\ [][Next]_vars
HasPlaceholder == \E i \in DOMAIN lex : lex[i] \in {"@", "~"}
Emit == (stack = <<>> /\ lex # <<>> /\ HasPlaceholder) => PrintT(<<"CASE", ToJson([lex |-> lex, tilde |-> \E i \in DOMAIN lex : lex[i] = "~"])>>)
=============================================================================
