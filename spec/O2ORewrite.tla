----------------------------- MODULE O2ORewrite -----------------------------
(* C12 / C13 / C06: rewrites of an abstract input that must not change what is generated.
   WriteOut*   : a shortcut instruction replaced by the basic instructions it abbreviates, same arguments (README table);
   (Respell and ProjectTo act on concrete attribute spelling / on whole inputs and live in MC_C13 / MC_C06.) *)
EXTENDS O2OLookup, O2OImpls

SetToSeqKinds(S) == LET idx == {i \in 1..6 : KindSeq[i] \in S} IN
                    [j \in 1..Cardinality(idx) |-> KindSeq[CHOOSE i \in idx : Cardinality({m \in idx : m < i}) = j - 1]]
IsShortcut(n) == n \in TraitNames /\ Cardinality(Appl(n)) > 1
\* one instruction -> the sequence of basic instructions with the same fields otherwise
WriteOutInstr(t) == IF t.n \in TraitNames
                    THEN LET ks == SetToSeqKinds(Appl(t.n)) IN [i \in DOMAIN ks |-> [t EXCEPT !.n = BasicName(ks[i], Fallible(t.n))]]
                    ELSE IF t.n = "ghost" THEN <<[t EXCEPT !.n = "ghost_owned"], [t EXCEPT !.n = "ghost_ref"]>>
                    ELSE IF t.n = "ghosts" THEN <<[t EXCEPT !.n = "ghosts_owned"], [t EXCEPT !.n = "ghosts_ref"]>>
                    ELSE <<t>>
\* write out occurrence `pos` only (every occurrence is tried separately, and all at once with pos = 0)
RECURSIVE WriteOutAt(_, _, _)
WriteOutAt(s, pos, i) == IF i > Len(s) THEN <<>>
                         ELSE (IF pos = 0 \/ pos = i THEN WriteOutInstr(s[i]) ELSE <<s[i]>>) \o WriteOutAt(s, pos, i + 1)
WriteOut(s, pos) == WriteOutAt(s, pos, 1)

\* theorem (type level): the impl bag is unchanged
TypeLevelEquivalent(ts, pos) == ImplBag(ts) = ImplBag(WriteOut(ts, pos))
\* theorem (member level): for every conversion the same *written* instruction takes effect (identified by its marker id)
Marker(instrs, k, f, cp) == LET a == Applicable(instrs, k, f, cp) IN IF a.i = 0 THEN [ghost |-> a.ghost, id |-> 0] ELSE [ghost |-> a.ghost, id |-> instrs[a.i].id]
MemberLevelEquivalent(instrs, pos, CPs) == \A k \in Kinds, f \in BOOLEAN, cp \in CPs : Marker(instrs, k, f, cp) = Marker(WriteOut(instrs, pos), k, f, cp)
=============================================================================
