------------------------------ MODULE MC_C09 ------------------------------
EXTENDS O2OLit, Json
CONSTANTS MaxVariants
VARIABLE in
Init == \E p \in {"int", "str"}, m \in {"from", "map"}, d \in {"value", "err"} : in = [vs |-> <<>>, prim |-> p, mode |-> m, dflt |-> d]
Add(it) == Len(in.vs) < MaxVariants /\ in' = [in EXCEPT !.vs = Append(@, it)]
Next == \E it \in Items : Add(it)
Spec == Init /\ [][Next]_in
Emit == WellFormed(in) => PrintT(<<"CASE", ToJson(in)>>)
Theorem == WellFormed(in) => RoundTripTheorem(in)
=============================================================================
