----------------------------- MODULE Trace_C04 -----------------------------
(* Judge for C04: consumes observations of the real derive (impl headers as read back by syn from the
   real token stream) and explains each one by the specification.  One record per derive run:
     [id, dt, ts, verdict, impls: Seq([trait, path, byref, from, cp, err, method]), classes: Seq(STRING),
      dupgens: number of impls whose generic parameter list names a parameter twice] *)
EXTENDS O2OImpls, TLC, Json, IOUtils

Rec == ndJsonDeserialize(IOEnv.TRACE)
VARIABLES l, ts
vars == <<l, ts>>

ToSetS(s) == {s[i] : i \in DOMAIN s}
ObsBag(impls) == LET S == ToSetS(impls) IN [d \in S |-> Cardinality({i \in DOMAIN impls : impls[i] = d})]
BagAsSet(b) == {[d |-> d, n |-> b[d]] : d \in DOMAIN b}

\* what went wrong, in the vocabulary of the property statement
Symptom(r) ==
  LET faults == TraitFaults(r.ts)  exp == ImplBag(r.ts)  obs == ObsBag(r.impls) IN
  IF faults # {} THEN (IF r.verdict # "err" THEN "accepted_faulty"
                       ELSE IF ~(faults \subseteq ToSetS(r.classes)) THEN "missing_diagnostic" ELSE "-")
  ELSE IF r.verdict = "err" THEN "rejected_valid"
  ELSE IF r.verdict # "ok" THEN r.verdict                                     \* "panic", "unparseable"
  ELSE IF r.dupgens > 0 THEN "impl_declares_a_parameter_twice"
  ELSE IF obs = exp THEN "-"
  ELSE IF \E d \in DOMAIN exp : d \notin DOMAIN obs
            /\ \E o \in DOMAIN obs : [o EXCEPT !.err = d.err] = d THEN "wrong_error_type"
  ELSE IF \E d \in DOMAIN exp : d \notin DOMAIN obs THEN "missing_impl"
  ELSE IF \E d \in DOMAIN obs : d \notin DOMAIN exp THEN "extra_impl"
  ELSE "wrong_multiplicity"
Cell(r) == [dt |-> r.dt,
            into_existing |-> \E i \in DOMAIN r.ts : Appl(r.ts[i].n) \cap {"OIE", "RIE"} # {},
            errs |-> {r.ts[i].err : i \in DOMAIN r.ts} \ {"-"}]

Init == l = 1 /\ ts = <<>>
Consume == /\ l <= Len(Rec)
           /\ ts' = Rec[l].ts
           /\ (IF Symptom(Rec[l]) = "-" THEN TRUE
               ELSE PrintT(<<"MISMATCH", ToJson([id |-> Rec[l].id, symptom |-> Symptom(Rec[l]), cell |-> Cell(Rec[l]),
                                                 expected |-> BagAsSet(ImplBag(Rec[l].ts)), faults |-> TraitFaults(Rec[l].ts),
                                                 observed |-> Rec[l].impls, verdict |-> Rec[l].verdict, classes |-> Rec[l].classes])>>))
           /\ l' = l + 1
Spec == Init /\ [][Consume]_vars
Accepted == TLCGet("stats").diameter - 1 = Len(Rec)
=============================================================================
