SPECIFICATION Spec
CONSTANTS
  MaxLen = 4
  MaxDepth = 2
INVARIANT Emit
CHECK_DEADLOCK FALSE
