SPECIFICATION Spec
CONSTANTS
  Mode = "type"
  MaxLen = 3
INVARIANTS Emit Equivalent
CHECK_DEADLOCK FALSE
