------------------------------ MODULE O2OLit ------------------------------
(* C09: #[literal] / #[pattern] -- enum variants <-> primitive values (README "Mapping to primitive types").
   in == [vs |-> Seq(Item), prim |-> "int" | "str", mode |-> "from" | "map", dflt |-> "value" | "err"]
   Item: "l0".."l3" literal n; "lK" a literal written as the constant path K2 (= 2); patterns "p13" (1..=3 / "s1" | "s3"),
         "p24" (2 | 4), "ple1" (..=1), "pall" (_).  A last variant Z (literal 99) receives the `_ =>` default case when dflt = "value".
   The test domain is -2..6 and 99 (covers every boundary of every pattern +/- 1); strings encode the same numbers as "s<n>". *)
EXTENDS Integers, Sequences, FiniteSets, TLC

\* "dl1" / "dp13": a default literal 55 / default pattern 50..=60 written FIRST and a literal 1 / pattern 1..=3 dedicated to the counterpart type:
\* the dedicated one is the one that counts (C05's rule for literal / pattern)
\* "pK": a pattern that is a lone constant path, K4 (= 4)
\* "ln1": the literal -1 (two tokens: punct + literal); "pn10": the range -1..=0 ("s-1" | "s0"); "px13": the half-open range 1..3 (integers only)
\* "lg1": the literal 1, dedicated to the primitive, on a variant that is also #[ghost(Other)] for a SECOND counterpart enum (the type then carries
\* #[from_owned(Other)] as well and every literal / pattern is written in dedicated form): what concerns Other must not touch the primitive's arms (C06)
Items == {"l0", "l1", "l2", "l3", "lK", "p13", "p24", "ple1", "pall", "pK", "dl1", "dp13", "ln1", "pn10", "px13", "lg1"}
IsLit(it) == it \in {"l0", "l1", "l2", "l3", "lK", "dl1", "ln1", "lg1"}
Two(in) == \E i \in DOMAIN in.vs : in.vs[i] = "lg1"
LitVal(it) == CASE it = "l0" -> 0 [] it = "l1" -> 1 [] it = "l2" -> 2 [] it = "l3" -> 3 [] it = "lK" -> 2 [] it = "dl1" -> 1 [] it = "ln1" -> -1 [] it = "lg1" -> 1
Matches(it, prim, x) ==
  CASE IsLit(it)   -> x = LitVal(it)
    [] it \in {"p13", "dp13"} -> IF prim = "int" THEN x >= 1 /\ x <= 3 ELSE x \in {1, 3}
    [] it = "p24"  -> x \in {2, 4}
    [] it = "pK"   -> x = 4
    [] it = "pn10" -> x \in {-1, 0}
    [] it = "px13" -> x \in {1, 2}
    [] it = "ple1" -> x <= 1
    [] it = "pall" -> TRUE
Domain == (-2..6) \cup {99}
N2S(i) == ToString(i)
VName(i) == "V" \o N2S(i)

RECURSIVE FirstMatch(_, _, _)
FirstMatch(in, x, i) == IF i > Len(in.vs) THEN 0 ELSE IF Matches(in.vs[i], in.prim, x) THEN i ELSE FirstMatch(in, x, i + 1)
\* From: arms are tried in declaration order, then Z's literal, then the default case
FromExp(in, x) == LET i == FirstMatch(in, x, 1) IN
                  IF i # 0 THEN VName(i) ELSE IF x = 99 THEN "Z" ELSE IF in.dflt = "value" THEN "Z" ELSE "ERR"
\* Into: a literal variant yields its literal; a pattern variant the value of its `into` expression (70 + i); Z yields 99
IntoExp(in, i) == IF IsLit(in.vs[i]) THEN LitVal(in.vs[i]) ELSE 70 + i
\* round trip (only in mode "map"): converting a variant to the primitive and back
RoundTrip(in, i) == FromExp(in, IntoExp(in, i))

WellFormed(in) == /\ Len(in.vs) >= 1
                  /\ (Two(in) => \A i \in DOMAIN in.vs : in.vs[i] \notin {"dl1", "dp13"})     \* their default literal would concern Other too
                  /\ (in.prim = "str" => \A i \in DOMAIN in.vs : in.vs[i] \notin {"ple1", "lK", "pK", "px13"})
\* design-level theorem of the statement: with pairwise distinct literals and no pattern in front of a literal variant, the round trip is the identity
DistinctLits(in) == \A i, j \in DOMAIN in.vs : i # j /\ IsLit(in.vs[i]) /\ IsLit(in.vs[j]) => LitVal(in.vs[i]) # LitVal(in.vs[j])
RoundTripTheorem(in) == DistinctLits(in) =>
   \A i \in DOMAIN in.vs : IsLit(in.vs[i]) /\ (\A j \in 1..(i-1) : IsLit(in.vs[j])) => RoundTrip(in, i) = VName(i)
=============================================================================
