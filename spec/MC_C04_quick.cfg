SPECIFICATION Spec
CONSTANTS
  MaxLen = 2
  CPs = {"A", "B"}
  Errs = {"E1"}
INVARIANTS Emit ShortcutsEqualBasics OrderIndependent NoDupWhenValid CountPerInstr
CHECK_DEADLOCK FALSE
