SPECIFICATION Spec
CONSTANTS
  MaxMembers = 4
  MaxGhosts = 0
  AllItems = FALSE
INVARIANTS Emit NoClash
CHECK_DEADLOCK FALSE
