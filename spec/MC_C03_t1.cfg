SPECIFICATION Spec
CONSTANTS
  MaxMembers = 4
  MaxGhosts = 0
  AllItems = FALSE
  TNs = {FALSE, TRUE}
INVARIANTS Emit NoClash
CHECK_DEADLOCK FALSE
