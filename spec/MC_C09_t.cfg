SPECIFICATION Spec
CONSTANT MaxVariants = 3
INVARIANTS Emit Theorem
CHECK_DEADLOCK FALSE
