----------------------------- MODULE Trace_C17 -----------------------------
(* C17 judge: the shape of every item of an accepted expansion, as read back by syn (type text without whitespace).
   record [id, parse, non_impl_items, declared_errs: Seq(STRING) (error types written in the input's fallible trait instructions), impls: Seq([path, args: Seq(STRING), self, self_ref, nfns, fn, inputs: Seq(STRING), output, assoc: Seq([name, ty]), other])]
   Shape(conv) is the documented item for each of the six traits (README "Trait instructions", o2o::traits). *)
EXTENDS O2OSyntax, TLC, Json, IOUtils
Rec == ndJsonDeserialize(IOEnv.TRACE)
VARIABLE l
Traits == {"From", "TryFrom", "Into", "TryInto", "IntoExisting", "TryIntoExisting"}
PathOf(t) == IF t \in {"IntoExisting", "TryIntoExisting"} THEN "o2o::traits::" \o t ELSE "::core::convert::" \o t
TraitOfPath(p) == IF \E t \in Traits : PathOf(t) = p THEN CHOOSE t \in Traits : PathOf(t) = p ELSE "-"
IsFallibleT(t) == t \in {"TryFrom", "TryInto", "TryIntoExisting"}
MethodName(t) == CASE t = "From" -> "from" [] t = "TryFrom" -> "try_from" [] t = "Into" -> "into" [] t = "TryInto" -> "try_into"
                   [] t = "IntoExisting" -> "into_existing" [] t = "TryIntoExisting" -> "try_into_existing"
Res(ok, e) == "::core::result::Result<" \o ok \o "," \o e \o ">"
SelfTy(im) == IF im.self_ref THEN "&" \o im.self_lt \o im.self ELSE im.self
ErrOf(im) == IF Len(im.assoc) = 1 THEN im.assoc[1].ty ELSE "?"
ImplSymptom(im, declared) ==
  LET t == TraitOfPath(im.path) IN
  IF t = "-" THEN "not_a_conversion_trait"
  ELSE IF Len(im.args) # 1 THEN "trait_arity"
  ELSE IF im.other # 0 THEN "extra_impl_items"
  ELSE IF im.nfns # 1 \/ im.fn # MethodName(t) THEN "wrong_method_set"
  ELSE IF IsFallibleT(t) /\ ~(Len(im.assoc) = 1 /\ im.assoc[1].name = "Error") THEN "error_type_missing"
  ELSE IF IsFallibleT(t) /\ im.assoc[1].ty \notin declared THEN "error_type_is_not_a_declared_one"
  ELSE IF ~IsFallibleT(t) /\ Len(im.assoc) # 0 THEN "unexpected_associated_type"
  ELSE LET a == im.args[1]  e == ErrOf(im) IN
    CASE t = "From"            -> IF im.inputs = <<"value:" \o a>> /\ im.output = im.self /\ ~im.self_ref THEN "-" ELSE "wrong_signature"
      [] t = "TryFrom"         -> IF im.inputs = <<"value:" \o a>> /\ im.output = Res(im.self, e) /\ ~im.self_ref THEN "-" ELSE "wrong_signature"
      [] t = "Into"            -> IF im.inputs = <<"self">> /\ im.output = a THEN "-" ELSE "wrong_signature"
      [] t = "TryInto"         -> IF im.inputs = <<"self">> /\ im.output = Res(a, e) THEN "-" ELSE "wrong_signature"
      [] t = "IntoExisting"    -> IF im.inputs = <<"self", "other:&mut" \o a>> /\ im.output = "()" THEN "-" ELSE "wrong_signature"
      [] t = "TryIntoExisting" -> IF im.inputs = <<"self", "other:&mut" \o a>> /\ im.output = Res("()", e) THEN "-" ELSE "wrong_signature"
Symptom(r) ==
  IF r.parse # "ok" THEN "output_does_not_parse"
  ELSE IF r.non_impl_items # 0 THEN "non_impl_item"
  ELSE IF \E i \in DOMAIN r.impls : ImplSymptom(r.impls[i], {r.declared_errs[j] : j \in DOMAIN r.declared_errs}) # "-"
       THEN ImplSymptom(r.impls[CHOOSE i \in DOMAIN r.impls : ImplSymptom(r.impls[i], {r.declared_errs[j] : j \in DOMAIN r.declared_errs}) # "-"], {r.declared_errs[j] : j \in DOMAIN r.declared_errs})
  ELSE "-"
Init == l = 1
Consume == /\ l <= Len(Rec)
           /\ (IF Symptom(Rec[l]) = "-" THEN TRUE ELSE PrintT(<<"MISMATCH", ToJson([id |-> Rec[l].id, symptom |-> Symptom(Rec[l])])>>))
           /\ l' = l + 1
Spec == Init /\ [][Consume]_l
Accepted == TLCGet("stats").diameter - 1 = Len(Rec)
=============================================================================
