SPECIFICATION Spec
CONSTANTS
  MaxMembers = 2
  Items = {"none", "ren", "expr", "var", "ghostd", "ghostb"}
  Shapes = {"named", "tuple"}
  Forms = {"same", "struct"}
  SGs = {0, 1}
  SGModes = {"both"}
  VarsSet = {0, 1, 2}
  Upds = {FALSE, TRUE}
  TupleGhosts = FALSE
  Rets = {FALSE, TRUE}
INVARIANTS Emit IntoExistingAgrees RefAgreesWithOwned OneDesignationPerLeaf RoundTrip
CHECK_DEADLOCK FALSE
