----------------------------- MODULE Trace_C09 -----------------------------
(* C09 judge.  records: [prop = "from", in, f, x, got] | [prop = "into", in, f, i, got] | [prop = "rt", in, f, i, got] | [prop = "CF", in, errors] *)
EXTENDS O2OLit, Json, IOUtils
Rec == ndJsonDeserialize(IOEnv.TRACE)
VARIABLE l
Symptom(r) ==
  CASE r.prop = "from" -> IF r.got = FromExp(r.in, r.x) THEN "-" ELSE IF FromExp(r.in, r.x) \in {"Z", "ERR"} THEN "default_case_wrong" ELSE "value_converted_to_wrong_variant"
    [] r.prop = "into" -> IF r.got = IntoExp(r.in, r.i) THEN "-" ELSE "variant_converted_to_wrong_value"
    [] r.prop = "rt"   -> IF r.got = RoundTrip(r.in, r.i) THEN "-" ELSE "round_trip_differs"
    [] r.prop = "CF"   -> "does_not_compile"
Init == l = 1
Consume == /\ l <= Len(Rec)
           /\ (IF Symptom(Rec[l]) = "-" THEN TRUE
               ELSE PrintT(<<"MISMATCH", ToJson([case |-> Rec[l].case, prop |-> Rec[l].prop, symptom |-> Symptom(Rec[l]), prim |-> Rec[l].in.prim, mode |-> Rec[l].in.mode])>>))
           /\ l' = l + 1
Spec == Init /\ [][Consume]_l
Accepted == TLCGet("stats").diameter - 1 = Len(Rec)
=============================================================================
