SPECIFICATION Spec
CONSTANTS
  MaxTraits = 1
  MaxMembers = 3
  AnyOrder = FALSE
  RepeatConflictIsError = TRUE
INVARIANT EmitInput
CONSTRAINT GenConstraint
CHECK_DEADLOCK FALSE
