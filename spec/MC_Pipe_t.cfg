SPECIFICATION Spec
CONSTANTS
  MaxTraits = 2
  MaxMembers = 3
  AnyOrder = FALSE
  RepeatConflictIsError = TRUE
INVARIANT EmitInput
CONSTRAINT GenConstraint
CHECK_DEADLOCK FALSE
