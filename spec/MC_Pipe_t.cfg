SPECIFICATION Spec
CONSTANTS
  PipeNames = {"from_owned", "owned_try_into", "map"}
  MaxTraits = 1
  MaxMembers = 3
  AnyOrder = FALSE
  RepeatConflictIsError = TRUE
INVARIANT EmitInput
CONSTRAINT GenConstraint
CHECK_DEADLOCK FALSE
