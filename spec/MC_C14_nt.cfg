SPECIFICATION Spec
CONSTANTS
  Mode = "variant"
  MaxLen = 3
  RepChoices = {{}, {"type_hint"}, {"map"}, {"ghost", "map"}}
  OwnChoices = {{}, {"type_hint"}, {"map", "type_hint"}, {"ghost"}, {"map"}}
  TNames = {"x"}
INVARIANTS FoldOk Emit
CHECK_DEADLOCK FALSE
