----------------------------- MODULE Trace_C14 -----------------------------
(* Judge for C14.  Records:
   member level [lvl = "member", ms, v1, v2, same, merged]:
      v1 / v2 : verdict of the real derive on the input / on the input with the repeated instructions written out (TLC chose what to copy);
      same    : the two expansions are token-identical;
      merged  : per member, the instruction set the real parser ended up with, as <<category, origin>> pairs (hook dump, by marker).
   trait level [lvl = "trait", ts, v1, v2, same, merged, writable]: likewise (`writable`: the written-out form can be spelled at all). *)
EXTENDS O2ORepeat, TLC, Json, IOUtils
Rec == ndJsonDeserialize(IOEnv.TRACE)
VARIABLE l
ToSetS(s) == {s[i] : i \in DOMAIN s}
AsPairs(m) == {<<m[i].c, m[i].t>> : i \in DOMAIN m}
\* JSON carries the category sets as arrays
Norm(s) == [j \in DOMAIN s |-> [s[j] EXCEPT !.own = ToSetS(@), !.cats = ToSetS(@)]]
Cfl(r) == IF r.lvl = "member" THEN Conflict(Norm(r.s)) ELSE IF r.lvl = "vfield" THEN VConflict(Norm(r.s)) ELSE TConflict(Norm(r.s))
Want(r, j) == IF r.lvl = "member" THEN Eff(Norm(r.s), j) ELSE IF r.lvl = "vfield" THEN VEff(Norm(r.s), j) ELSE TEff(Norm(r.s), j)
Symptom(r) ==
  IF Cfl(r) THEN (IF r.v1 = "err" THEN "-" ELSE IF r.v1 = "panic" THEN "conflict_panics" ELSE "conflict_accepted")
  ELSE IF r.v1 # "ok" THEN "valid_repeat_rejected"
  ELSE IF Len(r.merged) # Len(r.s) \/ \E j \in DOMAIN r.s : AsPairs(r.merged[j]) # Want(r, j) THEN "merged_instructions_differ_from_unrolled"
  ELSE IF r.writable /\ (r.v2 # "ok" \/ ~r.same) THEN "expansion_differs_from_written_out"
  ELSE "-"
Init == l = 1
Consume == /\ l <= Len(Rec)
           /\ (IF Symptom(Rec[l]) = "-" THEN TRUE
               ELSE PrintT(<<"MISMATCH", ToJson([id |-> Rec[l].id, lvl |-> Rec[l].lvl, symptom |-> Symptom(Rec[l]), conflict |-> Cfl(Rec[l]),
                                                 want |-> [j \in DOMAIN Rec[l].s |-> {[c |-> x[1], t |-> x[2]] : x \in Want(Rec[l], j)}], merged |-> Rec[l].merged])>>))
           /\ l' = l + 1
Spec == Init /\ [][Consume]_l
Accepted == TLCGet("stats").diameter - 1 = Len(Rec)
=============================================================================
