----------------------------- MODULE Trace_C14 -----------------------------
(* Judge for C14.  Records:
   member level [lvl = "member", ms, v1, v2, same, merged]:
      v1 / v2 : verdict of the real derive on the input / on the input with the repeated instructions written out (TLC chose what to copy);
      same    : the two expansions are token-identical;
      merged  : per member, the instruction set the real parser ended up with, as <<category, origin>> pairs (hook dump, by marker).
   trait level [lvl = "trait", ts, v1, v2, same, merged, writable]: likewise (`writable`: the written-out form can be spelled at all). *)
EXTENDS O2ORepeat, TLC, Json, IOUtils
Rec == ndJsonDeserialize(IOEnv.TRACE)
VARIABLE l
ToSetS(s) == {s[i] : i \in DOMAIN s}
AsPairs(m) == {<<m[i].c, m[i].t>> : i \in DOMAIN m}
\* JSON carries the category sets as arrays
Norm(s) == [j \in DOMAIN s |-> [s[j] EXCEPT !.own = ToSetS(@), !.cats = ToSetS(@)]]
Cfl(r) == IF r.lvl = "member" THEN Conflict(Norm(r.s)) ELSE IF r.lvl = "vfield" THEN VConflict(Norm(r.s)) ELSE TConflict(Norm(r.s))
Want(r, j) == IF r.lvl = "member" THEN Eff(Norm(r.s), j) ELSE IF r.lvl = "vfield" THEN VEff(Norm(r.s), j) ELSE TEff(Norm(r.s), j)
\* A sequence without a repeat conflict is judged by EQUIVALENCE with its written-out form, as the property states it: the merged instruction sets must
\* be those of the unrolling, and the real derive must treat both forms alike -- both accepted with token-identical expansions, or both rejected (the
\* written-out form can itself break a rule, e.g. two default #[parent] instructions on one member; then so does the repeat form).
MergedOk(r) == IF (r.v1 # "ok" /\ Len(r.merged) = 0) \/ ("verdict_only" \in DOMAIN r) THEN TRUE     \* rejected before the parsed state was recorded / C15's use: verdict only
               ELSE Len(r.merged) = Len(r.s) /\ \A j \in DOMAIN r.s : AsPairs(r.merged[j]) = Want(r, j)
Symptom(r) ==
  IF Cfl(r) THEN (IF r.v1 = "err" THEN "-" ELSE IF r.v1 = "panic" THEN "conflict_panics" ELSE "conflict_accepted")
  ELSE IF r.v1 = "panic" THEN "valid_repeat_panics"
  ELSE IF ~MergedOk(r) THEN "merged_instructions_differ_from_unrolled"
  ELSE IF r.writable THEN (IF r.v1 = r.v2 /\ (r.v1 = "ok" => r.same) THEN "-"
                           ELSE IF r.v1 # "ok" /\ r.v2 = "ok" THEN "valid_repeat_rejected"
                           ELSE "expansion_differs_from_written_out")
  ELSE IF r.v1 # "ok" THEN "valid_repeat_rejected"
  ELSE "-"
Init == l = 1
Consume == /\ l <= Len(Rec)
           /\ (IF Symptom(Rec[l]) = "-" THEN TRUE
               ELSE PrintT(<<"MISMATCH", ToJson([id |-> Rec[l].id, lvl |-> Rec[l].lvl, symptom |-> Symptom(Rec[l]), conflict |-> Cfl(Rec[l]),
                                                 want |-> [j \in DOMAIN Rec[l].s |-> {[c |-> x[1], t |-> x[2]] : x \in Want(Rec[l], j)}], merged |-> Rec[l].merged])>>))
           /\ l' = l + 1
Spec == Init /\ [][Consume]_l
Accepted == TLCGet("stats").diameter - 1 = Len(Rec)
=============================================================================
