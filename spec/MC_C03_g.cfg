SPECIFICATION Spec
CONSTANTS
  MaxMembers = 1
  MaxGhosts = 3
  AllItems = FALSE
  TNs = {FALSE}
INVARIANTS Emit NoClash
CHECK_DEADLOCK FALSE
