------------------------------ MODULE MC_C15 ------------------------------
(* C15 generator: Author actions build small inputs; faults arise at every position and in every combination by construction
   (every prefix of an input is an input).  The menus are constants so that configurations select sub-spaces. *)
EXTENDS O2OValidate, Json
CONSTANTS MaxTraits, MaxTAttrs, MaxMembers, MaxMAttrs, DTs, Shapes, TNames, Hints, TMenu, MMenu, TCps, MCps,
          MaxVFields, VFMenu,   \* enum variants: tuple payload fields (each with at most one instruction of VFMenu)
          FixedTraits, \* non-empty: the trait instructions are given (C06: one bundle per counterpart), AddTrait is disabled
          SpellAll     \* C13: every instruction in both spellings (bare / #[o2o(..)]), and adjacent own ones grouped or not
VARIABLE in
Owns == IF SpellAll THEN BOOLEAN ELSE {FALSE}
Init == \E dt \in DTs, sh \in Shapes, g \in Owns : (dt = "enum" => sh = "named") /\ in = [dt |-> dt, shape |-> sh, traits |-> (IF dt = "enum" THEN SelectSeq(FixedTraits, LAMBDA t : Appl(t.n) \cap {"OIE", "RIE"} = {}) ELSE FixedTraits), tattrs |-> <<>>, ms |-> <<>>, vf |-> <<>>, grouped |-> g]
AddTrait(n, cp, e, h, own) == /\ FixedTraits = <<>> /\ Len(in.traits) < MaxTraits /\ in.tattrs = <<>> /\ in.ms = <<>>
                         /\ (h = "struct" => in.dt = "struct" /\ in.shape = "tuple")
                         /\ in' = [in EXCEPT !.traits = Append(@, [n |-> n, cp |-> cp, err |-> e, hint |-> h, own |-> own])]
AddTAttr(n, cp, own) == /\ Len(in.tattrs) < MaxTAttrs /\ in.ms = <<>>
                        /\ (TLabel(n) \notin TypeLevelOk => cp = "-")
                        /\ (SpellAll \/ n = "bogus" \/ own = FALSE)            \* spelling is C13's business; only `bogus` depends on it
                        /\ in' = [in EXCEPT !.tattrs = Append(@, [n |-> n, cp |-> cp, own |-> own])]
AddMember == Len(in.ms) < MaxMembers /\ in.shape # "unit" /\ in' = [in EXCEPT !.ms = Append(@, <<>>), !.vf = Append(@, <<>>)]
\* a payload field of the last variant (tuple payload), and its single instruction
AddVField == in.dt = "enum" /\ in.ms # <<>> /\ Len(in.vf[Len(in.vf)]) < MaxVFields /\ in' = [in EXCEPT !.vf[Len(in.vf)] = Append(@, <<>>)]
AddVFAttr(n, cp) == /\ in.dt = "enum" /\ in.vf # <<>> /\ in.vf[Len(in.vf)] # <<>>
                    /\ LET fs == in.vf[Len(in.vf)] IN fs[Len(fs)] = <<>>
                    /\ (n \in {"map_bare", "where_clause", "children", "child_parents", "bogus"} => cp = "-")
                    /\ in' = [in EXCEPT !.vf[Len(in.vf)][Len(in.vf[Len(in.vf)])] = << [n |-> n, cp |-> cp, own |-> (n = "bogus")] >>]
AddMAttr(n, cp, own) == /\ in.ms # <<>> /\ Len(in.ms[Len(in.ms)]) < MaxMAttrs /\ in.vf[Len(in.vf)] = <<>>
                        /\ (n \notin MemberOk => cp = "-") /\ (n = "map_bare" => cp = "-")
                        /\ (SpellAll \/ n = "bogus" \/ own = FALSE)
                        /\ ~(in.dt = "enum" /\ IsChild(n))                 \* #[child] on a variant: no documented rule either way
                        /\ ~(n \in {"literal", "pattern", "type_hint"} /\ in.dt = "enum" /\ \E x \in ToSetQ(in.ms[Len(in.ms)]) : x.n \in {"literal", "pattern"} /\ x.n # n)
                        /\ in' = [in EXCEPT !.ms[Len(in.ms)] = Append(@, [n |-> n, cp |-> cp, own |-> own])]
Next == \/ \E n \in TNames, cp \in {"A", "B"}, e \in {"-", "E1"}, h \in Hints, own \in Owns : AddTrait(n, cp, e, h, own)
        \/ \E n \in TMenu, cp \in TCps, own \in BOOLEAN : AddTAttr(n, cp, own)
        \/ AddMember
        \/ \E n \in MMenu, cp \in MCps, own \in BOOLEAN : AddMAttr(n, cp, own)
        \/ AddVField \/ (\E n \in VFMenu, cp \in MCps : AddVFAttr(n, cp))
Spec == Init /\ [][Next]_in
Emit == in.ms # <<>> => PrintT(<<"CASE", ToJson(in)>>)
\* design-level: removing the last member instruction of a faulty input never adds a fault of another member / the type
Monotone == TRUE
NoTraits == <<>>
\* C06: ProjectTo -- every instruction that concerns another counterpart removed
ProjectTo(i, cp) == [i EXCEPT !.traits = SelectSeq(@, LAMBDA t : t.cp = cp),
                              !.tattrs = SelectSeq(@, LAMBDA x : x.cp \in {"-", cp}),
                              !.ms = [j \in DOMAIN @ |-> SelectSeq(@[j], LAMBDA x : x.cp \in {"-", cp})],
                              !.vf = [j \in DOMAIN @ |-> [f \in DOMAIN @[j] |-> SelectSeq(@[j][f], LAMBDA x : x.cp \in {"-", cp})]]]
EmitProj == (in.ms # <<>> \/ in.shape = "unit") => PrintT(<<"CASE", ToJson([in |-> in, pa |-> ProjectTo(in, "A"), pb |-> ProjectTo(in, "B"), faults |-> FaultKeys(in)])>>)
\* design-level: the projection of a valid input is valid, and projecting never introduces a fault that concerns the kept counterpart only
ProjectionKeepsValidity == Faults(in) = {} => Faults(ProjectTo(in, "A")) = {} /\ Faults(ProjectTo(in, "B")) = {}
\* C06: the bundle that defines all conversions for two counterparts
BundleAB == << [n |-> "map", cp |-> "A", err |-> "-", hint |-> "-", own |-> FALSE], [n |-> "into_existing", cp |-> "A", err |-> "-", hint |-> "-", own |-> FALSE],
               [n |-> "map", cp |-> "B", err |-> "-", hint |-> "-", own |-> FALSE], [n |-> "try_into", cp |-> "B", err |-> "E1", hint |-> "-", own |-> FALSE] >>
=============================================================================
