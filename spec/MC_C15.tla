------------------------------ MODULE MC_C15 ------------------------------
(* Author actions build small inputs; faults arise at every position by construction. *)
EXTENDS O2OValidate, Json
CONSTANTS MaxTraits, MaxTAttrs, MaxMembers, MaxMAttrs
TNames == {"from_owned", "owned_try_into", "map"}
VARIABLE in
Init == in = [traits |-> <<>>, tattrs |-> <<>>, ms |-> <<>>]
AddTrait(n, cp, e) == Len(in.traits) < MaxTraits /\ in.tattrs = <<>> /\ in.ms = <<>> /\ in' = [in EXCEPT !.traits = Append(@, [n |-> n, cp |-> cp, err |-> e])]
AddTAttr(n, cp) == Len(in.tattrs) < MaxTAttrs /\ in.ms = <<>> /\ in' = [in EXCEPT !.tattrs = Append(@, [n |-> n, cp |-> cp])]
AddMember == Len(in.ms) < MaxMembers /\ in' = [in EXCEPT !.ms = Append(@, <<>>)]
AddMAttr(n, cp) == in.ms # <<>> /\ Len(in.ms[Len(in.ms)]) < MaxMAttrs /\ in' = [in EXCEPT !.ms[Len(in.ms)] = Append(@, [n |-> n, cp |-> cp])]
Next == \/ \E n \in TNames, cp \in {"A", "B"}, e \in {"-", "E1"} : AddTrait(n, cp, e)
        \/ \E n \in {"ghosts", "where_clause", "child_parents"}, cp \in {"-", "A", "Z"} : AddTAttr(n, cp)
        \/ AddMember
        \/ \E p \in {<<"map","-">>, <<"map","Z">>, <<"ghost_nd","-">>, <<"ghost_nd","A">>, <<"child","-">>, <<"child","A">>} : AddMAttr(p[1], p[2])
Spec == Init /\ [][Next]_in
FaultsJ == LET F == Faults(in) IN [c \in {x.c \o "/" \o x.a : x \in F} |-> TRUE]
Emit == in.ms # <<>> => PrintT(<<"CASE", ToJson(in)>>)
=============================================================================
