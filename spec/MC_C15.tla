------------------------------ MODULE MC_C15 ------------------------------
(* C15 generator: Author actions build small inputs; faults arise at every position and in every combination by construction
   (every prefix of an input is an input).  The menus are constants so that configurations select sub-spaces. *)
EXTENDS O2OValidate, Json
CONSTANTS MaxTraits, MaxTAttrs, MaxMembers, MaxMAttrs, DTs, Shapes, TNames, Hints, TMenu, MMenu, TCps, MCps,
          SpellAll     \* C13: every instruction in both spellings (bare / #[o2o(..)]), and adjacent own ones grouped or not
VARIABLE in
Owns == IF SpellAll THEN BOOLEAN ELSE {FALSE}
Init == \E dt \in DTs, sh \in Shapes, g \in Owns : (dt = "enum" => sh = "named") /\ in = [dt |-> dt, shape |-> sh, traits |-> <<>>, tattrs |-> <<>>, ms |-> <<>>, grouped |-> g]
AddTrait(n, cp, e, h, own) == /\ Len(in.traits) < MaxTraits /\ in.tattrs = <<>> /\ in.ms = <<>>
                         /\ (h = "struct" => in.dt = "struct" /\ in.shape = "tuple")
                         /\ in' = [in EXCEPT !.traits = Append(@, [n |-> n, cp |-> cp, err |-> e, hint |-> h, own |-> own])]
AddTAttr(n, cp, own) == /\ Len(in.tattrs) < MaxTAttrs /\ in.ms = <<>>
                        /\ (n \notin TypeLevelOk => cp = "-")
                        /\ (SpellAll \/ n = "bogus" \/ own = FALSE)            \* spelling is C13's business; only `bogus` depends on it
                        /\ in' = [in EXCEPT !.tattrs = Append(@, [n |-> n, cp |-> cp, own |-> own])]
AddMember == Len(in.ms) < MaxMembers /\ in' = [in EXCEPT !.ms = Append(@, <<>>)]
AddMAttr(n, cp, own) == /\ in.ms # <<>> /\ Len(in.ms[Len(in.ms)]) < MaxMAttrs
                        /\ (n \notin MemberOk => cp = "-")
                        /\ (SpellAll \/ n = "bogus" \/ own = FALSE)
                        /\ ~(in.dt = "enum" /\ n = "child")                  \* #[child] on a variant: no documented rule either way
                        /\ ~(n \in {"literal", "pattern", "type_hint"} /\ in.dt = "enum" /\ \E x \in ToSetQ(in.ms[Len(in.ms)]) : x.n \in {"literal", "pattern"} /\ x.n # n)
                        /\ in' = [in EXCEPT !.ms[Len(in.ms)] = Append(@, [n |-> n, cp |-> cp, own |-> own])]
Next == \/ \E n \in TNames, cp \in {"A", "B"}, e \in {"-", "E1"}, h \in Hints, own \in Owns : AddTrait(n, cp, e, h, own)
        \/ \E n \in TMenu, cp \in TCps, own \in BOOLEAN : AddTAttr(n, cp, own)
        \/ AddMember
        \/ \E n \in MMenu, cp \in MCps, own \in BOOLEAN : AddMAttr(n, cp, own)
Spec == Init /\ [][Next]_in
Emit == in.ms # <<>> => PrintT(<<"CASE", ToJson(in)>>)
\* design-level: removing the last member instruction of a faulty input never adds a fault of another member / the type
Monotone == TRUE
=============================================================================
