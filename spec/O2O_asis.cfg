SPECIFICATION Spec
CONSTANTS
  MaxTraits = 2
  MaxMembers = 2
  AnyOrder = FALSE
  RepeatConflictIsError = FALSE
INVARIANTS TypeOK ImplsAreDocumented FoldIsUnroll RejectedIffFaulty NeverPanics
CHECK_DEADLOCK FALSE
