------------------------------ MODULE MC_Parent ------------------------------
EXTENDS O2OParent, Json
CONSTANTS MaxBase, MaxOwn, VarsSet
VARIABLE in
Init == \E k \in {"bare", "param", "nested", "nested3"}, v \in VarsSet : in = [kind |-> k, bit |-> <<>>, own |-> <<>>, ppos |-> 1, vars |-> v]
AddBase(it) == Len(in.bit) < MaxBase /\ in.own = <<>> /\ in' = [in EXCEPT !.bit = Append(@, it)]
AddOwn(it) == Len(in.own) < MaxOwn /\ in.ppos = 1 /\ in' = [in EXCEPT !.own = Append(@, it)]
Place(p) == in.ppos = 1 /\ p > 1 /\ p <= Len(in.own) + 1 /\ in' = [in EXCEPT !.ppos = p]
Next == (\E it \in {"none", "ren", "expr", "kexpr"} : AddBase(it)) \/ (\E it \in {"none", "expr"} : AddOwn(it)) \/ (\E p \in 2..(MaxOwn + 1) : Place(p))
Spec == Init /\ [][Next]_in
Emit == WellFormed(in) => PrintT(<<"CASE", ToJson(in)>>)
\* every leaf of the counterpart is designated exactly once; from reads what into writes
OneEach == WellFormed(in) => /\ \A k \in {"OI", "RI"} : \A a, b \in IntoExp(in, k) : a.leaf = b.leaf => a = b
                             /\ Cardinality({w.leaf : w \in FromExp(in)}) = Len(in.own) + Len(in.bit)
=============================================================================
