SPECIFICATION Spec
CONSTANTS
  MaxMembers = 2
  MaxGhosts = 1
  AllItems = TRUE
  TNs = {FALSE}
INVARIANTS Emit NoClash
CHECK_DEADLOCK FALSE
