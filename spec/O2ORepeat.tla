----------------------------- MODULE O2ORepeat -----------------------------
(* C14, member level (struct): the repeat context fold as implemented (ast.rs:53-78, attr.rs:395-417)
   against the declarative reading of the README ("repeat all instructions for this member to the
   following members, until there is a stop_repeat or the members run out"). *)
EXTENDS Naturals, Sequences, FiniteSets

\* member == [own |-> SUBSET Cats (which categories of own instructions it carries),
\*            rep |-> "-" | "all" | a category, stop |-> BOOLEAN, skip |-> BOOLEAN]
Cats == {"map", "child"}
RepCats(r) == IF r = "all" THEN Cats ELSE {r}

\* an effective instruction is <<category, index of the member that wrote it>>
OwnInstrs(ms, j) == {<<c, j>> : c \in ms[j].own}

\* ---------------- declarative requirement ----------------
\* the template in force at member j: the latest earlier member with `repeat`, provided no member
\* after it up to and including j carries stop_repeat
Template(ms, j) ==
  LET C == {i \in 1..(j-1) : ms[i].rep # "-" /\ \A k \in (i+1)..j : ~ms[k].stop} IN
  IF C = {} THEN 0 ELSE CHOOSE i \in C : \A i2 \in C : i2 <= i
Eff(ms, j) ==
  LET t == Template(ms, j) IN
  IF ms[j].rep # "-" \/ ms[j].skip \/ t = 0 THEN OwnInstrs(ms, j)
  ELSE OwnInstrs(ms, j) \cup {<<c, t>> : c \in (ms[t].own \cap RepCats(ms[t].rep))}
\* documented misuse: a new repeat while one is active, without stop_repeat on the same member
Conflict(ms) == \E j \in DOMAIN ms : ms[j].rep # "-" /\ ~ms[j].stop /\ Template(ms, j) # 0
Unrolled(ms) == [j \in DOMAIN ms |-> Eff(ms, j)]

\* ---------------- the fold as implemented ----------------
\* ctx = 0 (none) or the index of the template member; result <<"ok", merged>> or <<"panic", j>>
RECURSIVE Fold(_, _, _, _)
Fold(ms, j, ctx, acc) ==
  IF j > Len(ms) THEN <<"ok", acc>>
  ELSE LET c1 == IF ms[j].stop THEN 0 ELSE ctx IN
       IF ms[j].rep # "-"
       THEN IF c1 # 0 /\ ~ms[j].stop THEN <<"panic", j>>
            ELSE Fold(ms, j + 1, j, Append(acc, OwnInstrs(ms, j)))
       ELSE IF c1 # 0
            THEN Fold(ms, j + 1, c1, Append(acc, IF ms[j].skip THEN OwnInstrs(ms, j)
                                                 ELSE OwnInstrs(ms, j) \cup {<<c, c1>> : c \in (ms[c1].own \cap RepCats(ms[c1].rep))}))
            ELSE Fold(ms, j + 1, 0, Append(acc, OwnInstrs(ms, j)))
FoldAll(ms) == Fold(ms, 1, 0, <<>>)

FoldRefinesRequirement(ms) ==
  IF Conflict(ms) THEN FoldAll(ms)[1] = "panic"            \* documented misuse must be *rejected*, not panic: C15/C16
  ELSE FoldAll(ms) = <<"ok", Unrolled(ms)>>
=============================================================================
