----------------------------- MODULE O2ORepeat -----------------------------
(* C14: repeat / skip_repeat / stop_repeat.
   Member level (ast.rs Field::multiple_from_syn + MemberAttrs::merge) and trait level (attr.rs get_data_type_attrs + TraitAttrCore::merge):
   each as (a) the declarative reading of the README ("repeat the instructions of the selected categories on every following member
   until stop_repeat / the end, except on skip_repeat members") and (b) the fold as implemented, with the theorem that (b) refines (a).

   member  == [own |-> SUBSET Cats, rep |-> BOOLEAN, cats |-> SUBSET Cats, stop |-> BOOLEAN, skip |-> BOOLEAN]
   an effective instruction is <<category, index of the member that wrote it>> *)
EXTENDS Naturals, Sequences, FiniteSets

\* the five categories a member-level repeat can select (attr.rs MEMBER_REPEAT_TYPES); on enum variants only map / ghost / type_hint can occur
Cats == {"map", "child", "parent", "ghost", "type_hint"}
RepCats(m) == IF m.cats = {} THEN Cats ELSE m.cats         \* `repeat` without categories repeats everything

OwnInstrs(ms, j) == {<<c, j>> : c \in ms[j].own}

\* ---------------- declarative requirement ----------------
\* the template in force at member j: the latest earlier member carrying `repeat`, provided no member after it up to and
\* including j carries stop_repeat
Template(ms, j) ==
  LET C == {i \in 1..(j-1) : ms[i].rep /\ \A k \in (i+1)..j : ~ms[k].stop} IN
  IF C = {} THEN 0 ELSE CHOOSE i \in C : \A i2 \in C : i2 <= i
Eff(ms, j) ==
  LET t == Template(ms, j) IN
  IF ms[j].rep \/ ms[j].skip \/ t = 0 THEN OwnInstrs(ms, j)
  ELSE OwnInstrs(ms, j) \cup {<<c, t>> : c \in (ms[t].own \cap RepCats(ms[t]))}
\* documented misuse: a new repeat while one is active, without stop_repeat on the same member
Conflict(ms) == \E j \in DOMAIN ms : ms[j].rep /\ ~ms[j].stop /\ Template(ms, j) # 0
Unrolled(ms) == [j \in DOMAIN ms |-> Eff(ms, j)]

\* ---------------- the fold as implemented ----------------
\* ctx = 0 (none) or the index of the template member; result <<"ok", merged>> or <<"conflict", j>>
RECURSIVE Fold(_, _, _, _)
Fold(ms, j, ctx, acc) ==
  IF j > Len(ms) THEN <<"ok", acc>>
  ELSE LET c1 == IF ms[j].stop THEN 0 ELSE ctx IN
       IF ms[j].rep
       THEN IF c1 # 0 /\ ~ms[j].stop THEN <<"conflict", j>>
            ELSE Fold(ms, j + 1, j, Append(acc, OwnInstrs(ms, j)))
       ELSE IF c1 # 0
            THEN Fold(ms, j + 1, c1, Append(acc, IF ms[j].skip THEN OwnInstrs(ms, j)
                                                 ELSE OwnInstrs(ms, j) \cup {<<c, c1>> : c \in (ms[c1].own \cap RepCats(ms[c1]))}))
            ELSE Fold(ms, j + 1, 0, Append(acc, OwnInstrs(ms, j)))
FoldAll(ms) == Fold(ms, 1, 0, <<>>)

FoldRefinesRequirement(ms) ==
  IF Conflict(ms) THEN FoldAll(ms)[1] = "conflict"          \* documented misuse is *rejected* (C15), never a panic (C16)
  ELSE FoldAll(ms) = <<"ok", Unrolled(ms)>>


\* =====================================================================================================
\* Enum variant payload fields: the field-level repeat context is shared by all variants of the enum (ast.rs: one Context for
\* Variant::multiple_from_syn); a template ends with its variant unless it was written `repeat(permeate(), ..)`.
\*   f == [v |-> variant number, own, rep, cats, perm |-> BOOLEAN, stop, skip]      (fields of all variants in declaration order)
\* =====================================================================================================
\* the latest earlier field carrying `repeat` with no stop_repeat after it up to and including j: the context holds ONE template,
\* a later repeat replaces an earlier one; it is in force for j only within its own variant, or everywhere once it permeates
VLatest(fs, j) ==
  LET C == {i \in 1..(j-1) : fs[i].rep} IN
  IF C = {} THEN 0 ELSE CHOOSE i \in C : \A i2 \in C : i2 <= i
VTemplate(fs, j) ==
  LET i == VLatest(fs, j) IN
  IF i = 0 THEN 0
  ELSE IF \E k \in (i+1)..j : fs[k].stop THEN 0
  ELSE IF fs[i].v = fs[j].v \/ fs[i].perm THEN i ELSE 0
VEff(fs, j) ==
  LET t == VTemplate(fs, j) IN
  IF fs[j].rep \/ fs[j].skip \/ t = 0 THEN OwnInstrs(fs, j)
  ELSE OwnInstrs(fs, j) \cup {<<c, t>> : c \in (fs[t].own \cap RepCats(fs[t]))}
VConflict(fs) == \E j \in DOMAIN fs : fs[j].rep /\ ~fs[j].stop /\ VTemplate(fs, j) # 0
VUnrolled(fs) == [j \in DOMAIN fs |-> VEff(fs, j)]
\* the fold as implemented: ctx = 0 or the index of the template field; at a variant boundary a non-permeating template is dropped
RECURSIVE VFold(_, _, _, _)
VFold(fs, j, ctx, acc) ==
  IF j > Len(fs) THEN <<"ok", acc>>
  ELSE LET c0 == IF j > 1 /\ fs[j].v # fs[j-1].v /\ ctx # 0 /\ ~fs[ctx].perm THEN 0 ELSE ctx      \* end of the previous variant
           c1 == IF fs[j].stop THEN 0 ELSE c0 IN
       IF fs[j].rep
       THEN IF c1 # 0 /\ ~fs[j].stop THEN <<"conflict", j>>
            ELSE VFold(fs, j + 1, j, Append(acc, OwnInstrs(fs, j)))
       ELSE IF c1 # 0
            THEN VFold(fs, j + 1, c1, Append(acc, IF fs[j].skip THEN OwnInstrs(fs, j)
                                                  ELSE OwnInstrs(fs, j) \cup {<<c, c1>> : c \in (fs[c1].own \cap RepCats(fs[c1]))}))
            ELSE VFold(fs, j + 1, 0, Append(acc, OwnInstrs(fs, j)))
VFoldAll(fs) == VFold(fs, 1, 0, <<>>)
VFoldRefinesRequirement(fs) ==
  IF VConflict(fs) THEN VFoldAll(fs)[1] = "conflict"
  ELSE VFoldAll(fs) = <<"ok", VUnrolled(fs)>>

\* =====================================================================================================
\* Trait level.   t == [n |-> name, own |-> SUBSET TCats, rep |-> BOOLEAN, cats |-> SUBSET TCats, stop, skip]
\* =====================================================================================================
TCats == {"vars", "update", "quick_return", "default_case"}
TRepCats(t) == IF t.cats = {} THEN TCats ELSE t.cats
\* "every later instruction of the same name": the template for instruction j
TTemplate(ts, j) ==
  LET C == {i \in 1..(j-1) : ts[i].n = ts[j].n /\ ts[i].rep /\ \A k \in (i+1)..j : ts[k].n = ts[j].n => ~ts[k].stop} IN
  IF C = {} THEN 0 ELSE CHOOSE i \in C : \A i2 \in C : i2 <= i
TCopied(ts, j) == LET t == TTemplate(ts, j) IN
  IF ts[j].rep \/ ts[j].skip \/ t = 0 THEN {} ELSE ts[t].own \cap TRepCats(ts[t])
TEff(ts, j) == {<<c, j>> : c \in ts[j].own} \cup {<<c, TTemplate(ts, j)>> : c \in TCopied(ts, j)}
\* documented misuse: repeat while one of the same name is active without stop_repeat; an instruction that carries a parameter of a
\* category the active template *selects* (whether or not the template has a value for it: the selected categories are dictated by
\* the template, "... will be overriden. Did you forget to use 'skip_repeat'?") -- DESIGN 8.8
TSelected(ts, j) == LET t == TTemplate(ts, j) IN IF ts[j].rep \/ ts[j].skip \/ t = 0 THEN {} ELSE TRepCats(ts[t])
TConflict(ts) == \/ \E j \in DOMAIN ts : ts[j].rep /\ ~ts[j].stop /\ TTemplate(ts, j) # 0
                 \/ \E j \in DOMAIN ts : TSelected(ts, j) \cap ts[j].own # {}
TUnrolled(ts) == [j \in DOMAIN ts |-> TEff(ts, j)]

\* the fold as implemented: a map from name to the index of the active template (0 = none)
RECURSIVE TFold(_, _, _, _)
TFold(ts, j, ctx, acc) ==
  IF j > Len(ts) THEN <<"ok", acc>>
  ELSE LET n == ts[j].n
           c1 == IF ts[j].stop THEN [ctx EXCEPT ![n] = 0] ELSE ctx IN
       IF ts[j].rep
       THEN IF c1[n] # 0 /\ ~ts[j].stop THEN <<"conflict", j>>
            ELSE TFold(ts, j + 1, [c1 EXCEPT ![n] = j], Append(acc, {<<c, j>> : c \in ts[j].own}))
       ELSE IF c1[n] # 0 /\ ~ts[j].skip
            THEN LET cp == ts[c1[n]].own \cap TRepCats(ts[c1[n]]) IN
                 IF TRepCats(ts[c1[n]]) \cap ts[j].own # {} THEN <<"conflict", j>>
                 ELSE TFold(ts, j + 1, c1, Append(acc, {<<c, j>> : c \in ts[j].own} \cup {<<c, c1[n]>> : c \in cp}))
            ELSE TFold(ts, j + 1, c1, Append(acc, {<<c, j>> : c \in ts[j].own}))
TFoldAll(ts, Names) == TFold(ts, 1, [n \in Names |-> 0], <<>>)
TFoldRefinesRequirement(ts, Names) ==
  IF TConflict(ts) THEN TFoldAll(ts, Names)[1] = "conflict"
  ELSE TFoldAll(ts, Names) = <<"ok", TUnrolled(ts)>>
=============================================================================
