SPECIFICATION Spec
CONSTANTS
  MaxTraits = 1
  MaxTAttrs = 1
  MaxMembers = 1
  MaxVFields = 0
  VFMenu = {}
  MaxMAttrs = 2
  DTs = {"struct", "enum"}
  Shapes = {"named"}
  TNames = {"map"}
  Hints = {"-"}
  TMenu = {"ghosts", "where_clause", "child_parents", "parent", "ghost"}
  MMenu = {"map", "ghost_d", "literal", "where_clause", "child_parents"}
  FixedTraits <- NoTraits
  SpellAll = TRUE
  TCps = {"-", "A"}
  MCps = {"-", "Z"}
INVARIANT Emit
CHECK_DEADLOCK FALSE
