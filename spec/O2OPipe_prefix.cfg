SPECIFICATION Spec
CONSTANTS
  MaxTraits = 1
  MaxMembers = 2
  AnyOrder = FALSE
  RepeatConflictIsError = FALSE
INVARIANTS TypeOK NeverPanics
CHECK_DEADLOCK FALSE
