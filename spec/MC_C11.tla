------------------------------ MODULE MC_C11 ------------------------------
EXTENDS O2OGenerics, Json
CONSTANTS MaxParams, Params, CArgs, WCs
VARIABLE g
Init == \E c \in CArgs, w \in WCs : g = [ps |-> <<>>, cargs |-> c, wc |-> w]
Add(p) == Len(g.ps) < MaxParams /\ Legal(Append(g.ps, p)) /\ g' = [g EXCEPT !.ps = Append(@, p)]
Next == \E p \in Params : Add(p)
Spec == Init /\ [][Next]_g
\* a where-clause needs a type parameter to talk about; "same" needs something to repeat
InScope == /\ (g.wc # "none" => \E i \in DOMAIN g.ps : PName(g.ps[i]) = "T")
           /\ (g.cargs = "same" => g.ps # <<>>)
           /\ \A i \in DOMAIN g.ps : g.ps[i] = "lb" => \E j \in DOMAIN g.ps : g.ps[j] = "la"
Emit == InScope => PrintT(<<"CASE", ToJson(g)>>)
Theorems == InScope => \A k \in Kinds : DeclaredOnce(g, k) /\ LifetimesCovered(g, k)
=============================================================================
