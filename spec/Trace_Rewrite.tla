----------------------------- MODULE Trace_Rewrite -----------------------------
(* Judge of rewrite relations between two real expansions (C12, C13, C06).
   record: [id, rel, v1, v2, identical, bag_equal, msgs_equal]
     rel = "tokens"  : the two expansions must be token-identical (C13, C06 projections compare impl subsets prepared by the harness)
     rel = "bag"     : the multisets of per-impl token strings must be equal (C12: writing out may change the order of impls) *)
EXTENDS Naturals, Sequences, TLC, Json, IOUtils
Rec == ndJsonDeserialize(IOEnv.TRACE)
VARIABLE l
Symptom(r) ==
  IF r.v1 # r.v2 THEN "verdict_differs"
  ELSE IF r.v1 = "ok" /\ r.rel = "tokens" /\ ~r.identical THEN "tokens_differ"
  ELSE IF r.v1 = "ok" /\ r.rel = "bag" /\ ~r.bag_equal THEN "impls_differ"
  ELSE IF r.v1 = "err" /\ ~r.msgs_equal THEN "diagnostics_differ"
  ELSE "-"
Init == l = 1
Consume == /\ l <= Len(Rec)
           /\ (IF Symptom(Rec[l]) = "-" THEN TRUE ELSE PrintT(<<"MISMATCH", ToJson([id |-> Rec[l].id, symptom |-> Symptom(Rec[l])])>>))
           /\ l' = l + 1
Spec == Init /\ [][Consume]_l
Accepted == TLCGet("stats").diameter - 1 = Len(Rec)
=============================================================================
