---------------------------- MODULE O2OSyntax ----------------------------
(* Names and tables of the o2o attribute DSL, written from README.md (not from attr.rs). *)
EXTENDS Naturals, Sequences, FiniteSets

Kinds == {"OI", "RI", "FO", "FR", "OIE", "RIE"}     \* owned_into, ref_into, from_owned, from_ref, *_into_existing
KindSeq == <<"FO", "FR", "OI", "RI", "OIE", "RIE">>

IsFrom(k) == k \in {"FO", "FR"}
IsRef(k)  == k \in {"RI", "FR", "RIE"}
IsIE(k)   == k \in {"OIE", "RIE"}

\* README.md:190-264: the 12 basic instructions, the shortcut table, "exactly the same shortcuts
\* apply to fallible conversions".
InfallibleTraitNames ==
  {"owned_into", "ref_into", "into", "from_owned", "from_ref", "from", "map_owned", "map_ref", "map",
   "owned_into_existing", "ref_into_existing", "into_existing"}
FallibleTraitNames ==
  {"owned_try_into", "ref_try_into", "try_into", "try_from_owned", "try_from_ref", "try_from",
   "try_map_owned", "try_map_ref", "try_map",
   "owned_try_into_existing", "ref_try_into_existing", "try_into_existing"}
TraitNames == InfallibleTraitNames \cup FallibleTraitNames
MemberMapNames == TraitNames \ {"owned_try_into_existing", "ref_try_into_existing", "try_into_existing"}
GhostNames  == {"ghost", "ghost_owned", "ghost_ref"}
GhostsNames == {"ghosts", "ghosts_owned", "ghosts_ref"}

Fallible(n) == n \in FallibleTraitNames

Appl(n) ==
  CASE n \in {"owned_into", "owned_try_into"}                 -> {"OI"}
    [] n \in {"ref_into", "ref_try_into"}                     -> {"RI"}
    [] n \in {"into", "try_into"}                             -> {"OI", "RI"}
    [] n \in {"from_owned", "try_from_owned"}                 -> {"FO"}
    [] n \in {"from_ref", "try_from_ref"}                     -> {"FR"}
    [] n \in {"from", "try_from"}                             -> {"FO", "FR"}
    [] n \in {"map_owned", "try_map_owned"}                   -> {"FO", "OI"}
    [] n \in {"map_ref", "try_map_ref"}                       -> {"FR", "RI"}
    [] n \in {"map", "try_map"}                               -> {"FO", "FR", "OI", "RI"}
    [] n \in {"owned_into_existing", "owned_try_into_existing"} -> {"OIE"}
    [] n \in {"ref_into_existing", "ref_try_into_existing"}   -> {"RIE"}
    [] n \in {"into_existing", "try_into_existing"}           -> {"OIE", "RIE"}
    [] n \in {"ghost", "ghosts"}                              -> Kinds
    [] n \in {"ghost_owned", "ghosts_owned"}                  -> {"OI", "FO", "OIE"}
    [] n \in {"ghost_ref", "ghosts_ref"}                      -> {"RI", "FR", "RIE"}

\* The basic instruction that yields exactly (kind, fallibility)
BasicName(k, f) ==
  CASE k = "OI"  -> IF f THEN "owned_try_into" ELSE "owned_into"
    [] k = "RI"  -> IF f THEN "ref_try_into" ELSE "ref_into"
    [] k = "FO"  -> IF f THEN "try_from_owned" ELSE "from_owned"
    [] k = "FR"  -> IF f THEN "try_from_ref" ELSE "from_ref"
    [] k = "OIE" -> IF f THEN "owned_try_into_existing" ELSE "owned_into_existing"
    [] k = "RIE" -> IF f THEN "ref_try_into_existing" ELSE "ref_into_existing"

\* The trait each conversion implements (README.md:192-230)
TraitOf(k, f) ==
  CASE IsFrom(k) -> IF f THEN "TryFrom" ELSE "From"
    [] IsIE(k)   -> IF f THEN "TryIntoExisting" ELSE "IntoExisting"
    [] OTHER     -> IF f THEN "TryInto" ELSE "Into"
TraitPathOf(k, f) ==
  IF IsIE(k) THEN "o2o :: traits :: " \o TraitOf(k, f) ELSE ":: core :: convert :: " \o TraitOf(k, f)
MethodOf(k, f) ==
  CASE IsFrom(k) -> IF f THEN "try_from" ELSE "from"
    [] IsIE(k)   -> IF f THEN "try_into_existing" ELSE "into_existing"
    [] OTHER     -> IF f THEN "try_into" ELSE "into"

\* helpers on sequences
RECURSIVE FirstFrom(_, _, _)
FirstFrom(P(_), i, n) == IF i > n THEN 0 ELSE IF P(i) THEN i ELSE FirstFrom(P, i + 1, n)
First(P(_), n) == FirstFrom(P, 1, n)
RangeOf(s) == {s[i] : i \in DOMAIN s}
=============================================================================
