SPECIFICATION Spec
CONSTANTS
  MaxTraits = 1
  MaxTAttrs = 1
  MaxMembers = 1
  MaxVFields = 0
  VFMenu = {}
  MaxMAttrs = 2
  DTs = {"struct", "enum"}
  Shapes = {"named", "tuple"}
  TNames = {"map"}
  Hints = {"-", "struct"}
  TMenu = {"ghosts"}
  MMenu = {"map", "ghost_d", "parent0", "literal", "pattern", "type_hint", "where_clause", "children", "child_parents", "bogus"}
  FixedTraits <- NoTraits
  SpellAll = FALSE
  TCps = {"-", "A"}
  MCps = {"-", "A", "Z"}
INVARIANT Emit
CHECK_DEADLOCK FALSE
