SPECIFICATION Spec
CONSTANT MaxVariants = 2
INVARIANTS Emit Theorem
CHECK_DEADLOCK FALSE
