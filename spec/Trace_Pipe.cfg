SPECIFICATION TraceSpec
CONSTANTS
  PipeNames <- AllNames
  MaxTraits = 2
  MaxMembers = 3
  AnyOrder = TRUE
  RepeatConflictIsError = TRUE
INVARIANTS Inv AllConsumed
CHECK_DEADLOCK FALSE
