--------------------------------- MODULE O2OPipe ---------------------------------
(* The derive pipeline as a state machine (DESIGN 2.1-2.5): Author* ; Seal ; ParseTypeAttr* ;
   ParseMember* ; Validate ; (Reject | EmitImpl* ; Finish).  The requirement-level operators come
   from the O2O* modules; the actions below are shaped like the code (one per critical section). *)
EXTENDS O2OValidate, O2ORepeat

CONSTANTS MaxTraits, MaxMembers,
          PipeNames,                 \* the trait instruction names the author may use (a subset of TraitNames)
          RepeatConflictIsError,     \* FALSE = as implemented today (panic!), TRUE = repaired
          AnyOrder                   \* TRUE: impls may be emitted in any order (trace validation); FALSE: one canonical order (model checking)

VARIABLES
  in,        \* the abstract derive input: [traits, tattrs, ms (validation view), rms (repeat view)]
  pc,        \* "author" | "parse_type" | "parse_members" | "validate" | "expand" | "done" | "rejected" | "panic"
  ti, traits,            \* cursor / parsed trait instructions
  mi, fctx, merged,      \* cursor / active repeat template (0 = none) / merged instruction sets per member
  errors,                \* diagnostics so far, in the order the rules run (a sequence: C19)
  pending, impls         \* impl descriptors to emit / emitted (a sequence: the emission order)
vars == <<in, pc, ti, traits, mi, fctx, merged, errors, pending, impls>>

TNames == PipeNames
ASSUME PipeNames \subseteq TraitNames
\* the author's type always carries a (possibly unused) #[child_parents(..)], so that #[child] members are not a class 8 fault
ChildParents == [n |-> "child_parents", cp |-> "-", own |-> FALSE]
\* the validation view of a member that writes the instruction categories o (in the order they are printed: child, map)
MView(o) == (IF "child" \in o THEN << [n |-> "child", cp |-> "-", own |-> FALSE] >> ELSE <<>>) \o (IF "map" \in o THEN << [n |-> "map", cp |-> "-", own |-> FALSE] >> ELSE <<>>)
\* ... or not: then a #[child] member is a class 8 fault for every counterpart with an Into conversion, reported by Validate
Init == /\ \E withcp \in BOOLEAN : in = [dt |-> "struct", shape |-> "named", traits |-> <<>>, tattrs |-> (IF withcp THEN << ChildParents >> ELSE <<>>), ms |-> <<>>, rms |-> <<>>]
        /\ pc = "author" /\ ti = 1 /\ traits = <<>> /\ mi = 1 /\ fctx = 0 /\ merged = <<>>
        /\ errors = <<>> /\ pending = {} /\ impls = <<>>

\* ------------------------------ environment: the author writes the type ------------------------------
AddTrait(n, cp, e) == /\ pc = "author" /\ Len(in.traits) < MaxTraits /\ in.rms = <<>>
                      /\ in' = [in EXCEPT !.traits = Append(@, [n |-> n, cp |-> cp, err |-> e, hint |-> "-"])]
                      /\ UNCHANGED <<pc, ti, traits, mi, fctx, merged, errors, pending, impls>>
AddMember(o, r, st, sk) == /\ pc = "author" /\ Len(in.rms) < MaxMembers
                           /\ in' = [in EXCEPT !.rms = Append(@, [own |-> o, rep |-> r, cats |-> {}, stop |-> st, skip |-> sk]),
                                               !.ms = Append(@, MView(o))]
                           /\ UNCHANGED <<pc, ti, traits, mi, fctx, merged, errors, pending, impls>>
Seal == pc = "author" /\ pc' = "parse_type" /\ UNCHANGED <<in, ti, traits, mi, fctx, merged, errors, pending, impls>>

\* ------------------------------ system: attr::get_data_type_attrs ------------------------------
ParseTypeAttr == /\ pc = "parse_type" /\ ti <= Len(in.traits)
                 /\ traits' = Append(traits, in.traits[ti]) /\ ti' = ti + 1
                 /\ UNCHANGED <<in, pc, mi, fctx, merged, errors, pending, impls>>
EndParseType == pc = "parse_type" /\ ti > Len(in.traits) /\ pc' = "parse_members"
                /\ UNCHANGED <<in, ti, traits, mi, fctx, merged, errors, pending, impls>>

\* ------------------------------ system: ast::Field::multiple_from_syn (one member per step) ------------------------------
ParseMember ==
  /\ pc = "parse_members" /\ mi <= Len(in.rms)
  /\ LET m == in.rms[mi]
         c1 == IF m.stop THEN 0 ELSE fctx IN
     IF m.rep
     THEN IF c1 # 0 /\ ~m.stop
          THEN IF RepeatConflictIsError
               THEN /\ errors' = Append(errors, [c |-> "repeat_conflict", a |-> "s" \o ToString(mi)]) /\ pc' = "rejected"
                    /\ UNCHANGED <<mi, fctx, merged>>
               ELSE pc' = "panic" /\ UNCHANGED <<mi, fctx, merged, errors>>                       \* ast.rs:67
          ELSE /\ fctx' = mi /\ merged' = Append(merged, OwnInstrs(in.rms, mi)) /\ mi' = mi + 1 /\ UNCHANGED <<pc, errors>>
     ELSE /\ fctx' = c1 /\ mi' = mi + 1 /\ UNCHANGED <<pc, errors>>
          /\ merged' = Append(merged, IF c1 # 0 /\ ~m.skip
                                      THEN OwnInstrs(in.rms, mi) \cup {<<c, c1>> : c \in (in.rms[c1].own \cap RepCats(in.rms[c1]))}
                                      ELSE OwnInstrs(in.rms, mi))
  /\ UNCHANGED <<in, ti, traits, pending, impls>>
EndParseMembers == pc = "parse_members" /\ mi > Len(in.rms) /\ pc' = "validate"
                   /\ UNCHANGED <<in, ti, traits, mi, fctx, merged, errors, pending, impls>>

\* ------------------------------ system: validate::validate ------------------------------
SetToSeq(S) == CHOOSE s \in [1..Cardinality(S) -> S] : \A x \in S : \E i \in DOMAIN s : s[i] = x
Validate == /\ pc = "validate"
            /\ LET F == Faults([dt |-> in.dt, shape |-> in.shape, traits |-> traits, tattrs |-> in.tattrs, ms |-> in.ms]) IN
               IF F = {} THEN pc' = "expand" /\ pending' = DOMAIN ImplBag(traits) /\ UNCHANGED errors
               ELSE pc' = "rejected" /\ errors' = errors \o SetToSeq(F) /\ UNCHANGED pending
            /\ UNCHANGED <<in, ti, traits, mi, fctx, merged, impls>>

\* ------------------------------ system: expand::data_type_impl ------------------------------
EmitImpl(d) == /\ pc = "expand" /\ d \in pending
               /\ (AnyOrder \/ d = CHOOSE x \in pending : TRUE)
               /\ impls' = Append(impls, d) /\ pending' = pending \ {d}
               /\ UNCHANGED <<in, pc, ti, traits, mi, fctx, merged, errors>>
Finish == pc = "expand" /\ pending = {} /\ pc' = "done" /\ UNCHANGED <<in, ti, traits, mi, fctx, merged, errors, pending, impls>>

Next == \/ \E n \in TNames, cp \in {"A", "B"}, e \in {"-", "E1"} : AddTrait(n, cp, e)
        \/ \E o \in SUBSET {"map", "child"}, r \in BOOLEAN, st \in BOOLEAN, sk \in BOOLEAN : AddMember(o, r, st, sk)
        \/ Seal \/ ParseTypeAttr \/ EndParseType \/ ParseMember \/ EndParseMembers \/ Validate
        \/ (\E d \in pending : EmitImpl(d)) \/ Finish
System == ParseTypeAttr \/ EndParseType \/ ParseMember \/ EndParseMembers \/ Validate \/ (\E d \in pending : EmitImpl(d)) \/ Finish
Spec == Init /\ [][Next]_vars /\ WF_vars(System)

\* ------------------------------ properties ------------------------------
TypeOK == pc \in {"author", "parse_type", "parse_members", "validate", "expand", "done", "rejected", "panic"}
\* C04 on the machine: at done the emitted impls are exactly the documented bag (each once: no fault => no duplicates)
ImplsAreDocumented == pc = "done" => /\ {impls[i] : i \in DOMAIN impls} = DOMAIN ImplBag(traits)
                                     /\ Len(impls) = Cardinality(DOMAIN ImplBag(traits))
\* C14 on the machine: what the fold leaves on each member is what the unrolled input would carry
FoldIsUnroll == pc \in {"validate", "expand", "done"} => merged = Unrolled(in.rms)
\* C15 on the machine: rejected iff some documented rule is broken, and then every broken rule is reported
RejectedIffFaulty == /\ pc = "rejected" => errors # <<>>
                     /\ pc \in {"expand", "done"} => Faults([dt |-> in.dt, shape |-> in.shape, traits |-> traits, tattrs |-> in.tattrs, ms |-> in.ms]) = {} /\ ~Conflict(in.rms)
\* C16 on the machine
NeverPanics == pc # "panic"
Terminates == (pc = "parse_type") ~> (pc \in {"done", "rejected"})
=============================================================================
