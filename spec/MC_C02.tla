------------------------------ MODULE MC_C02 ------------------------------
EXTENDS O2OEnum, Json
CONSTANTS MaxVariants, MaxFields, VMenu, FMenu, VGs, EGs, VGModes
VARIABLE in
\* vgm: how variant-level ghosts are spelled -- "both": #[ghosts(..)]; "flav": the ownership-specific instruction that matches the conversions of
\* each twin enum alone (ghosts_owned on the owned twins, ghosts_ref on the by-reference twin)
Init == \E d \in BOOLEAN, e \in EGs, m \in VGModes : in = [vs |-> <<>>, dflt |-> d, eg |-> e, vgm |-> m]
AddVariant(sh, it, g) == Len(in.vs) < MaxVariants /\ in' = [in EXCEPT !.vs = Append(@, [shape |-> sh, it |-> it, fs |-> <<>>, vg |-> g])]
AddField(f) == in.vs # <<>> /\ in.vs[Len(in.vs)].shape # "unit" /\ Len(in.vs[Len(in.vs)].fs) < MaxFields
               /\ in' = [in EXCEPT !.vs[Len(in.vs)].fs = Append(@, f)]
Next == (\E sh \in {"unit", "tuple", "named"}, it \in VMenu, g \in VGs : AddVariant(sh, it, g)) \/ (\E f \in FMenu : AddField(f))
Spec == Init /\ [][Next]_in
Emit == (WellFormed(in) /\ ((\A i \in DOMAIN in.vs : in.vs[i].vg = 0) => in.vgm = "both")) => PrintT(<<"CASE", ToJson(in)>>)
\* design-level: bindings and uses agree -- every counterpart leaf read by From is one Into writes (same names / positions both ways)
Symmetric == WellFormed(in) => \A i \in DOMAIN in.vs : ~IsGhostV(in.vs[i]) =>
   {w.leaf : w \in IntoExp(in, i).leaves} = {CF(in.vs[i], j) : j \in Mapped(in.vs[i])} \cup {VGLeaf(in.vs[i], k) : k \in 1..in.vs[i].vg}
=============================================================================
