------------------------------ MODULE MC_C02 ------------------------------
EXTENDS O2OEnum, Json
CONSTANTS MaxVariants, MaxFields
VARIABLE in
Init == \E d \in BOOLEAN : in = [vs |-> <<>>, dflt |-> d]
AddVariant(sh, it) == Len(in.vs) < MaxVariants /\ in' = [in EXCEPT !.vs = Append(@, [shape |-> sh, it |-> it, fs |-> <<>>])]
AddField(f) == in.vs # <<>> /\ in.vs[Len(in.vs)].shape # "unit" /\ Len(in.vs[Len(in.vs)].fs) < MaxFields
               /\ in' = [in EXCEPT !.vs[Len(in.vs)].fs = Append(@, f)]
Next == (\E sh \in {"unit", "tuple", "named"}, it \in VItems : AddVariant(sh, it)) \/ (\E f \in FItems : AddField(f))
Spec == Init /\ [][Next]_in
Emit == WellFormed(in) => PrintT(<<"CASE", ToJson(in)>>)
=============================================================================
