SPECIFICATION Spec
CONSTANTS
  MaxMembers = 2
  MaxGhosts = 2
  AllItems = TRUE
  TNs = {FALSE}
INVARIANTS Emit NoClash
CHECK_DEADLOCK FALSE
