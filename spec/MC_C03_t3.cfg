SPECIFICATION Spec
CONSTANTS
  MaxMembers = 2
  MaxGhosts = 2
  AllItems = TRUE
INVARIANTS Emit NoClash
CHECK_DEADLOCK FALSE
