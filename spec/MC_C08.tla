------------------------------ MODULE MC_C08 ------------------------------
(* C08 (attribute parameters): generator of parameter lists of one trait instruction.
   Grammar fact (README "Inline expressions" / attr.rs: `..`, `return`, `_` take the rest of the stream):
   keyword parameters in any order, then at most one tail parameter. *)
EXTENDS O2OSyntax, TLC, Json
Keyword == {"vars", "at", "iat", "nat"}
Tails == {"-", "upd", "ret", "dflt"}
VARIABLE p
\* gh: the struct also carries a type-level #[ghosts(..)] (its lines and the `..expr` / post-init fragments share one body)
Init == \E n \in TraitNames, dt \in {"struct", "enum"}, t \in Tails, gh \in BOOLEAN :
           /\ (gh => dt = "struct")
           /\ (t = "dflt" => dt = "enum") /\ (t = "upd" => dt = "struct")
           \* `..expr` and `_ => expr` complete a value that is being constructed; into_existing constructs none (DESIGN 8)
           /\ (t \in {"upd", "dflt"} => Appl(n) \cap {"OIE", "RIE"} = {})
           /\ p = [n |-> n, dt |-> dt, ps |-> <<>>, tail |-> t, gh |-> gh]
Add(k) == /\ k \notin {p.ps[i] : i \in DOMAIN p.ps}
          /\ p' = [p EXCEPT !.ps = Append(@, k)]
Next == \E k \in Keyword : Add(k)
Spec == Init /\ [][Next]_p
Emit == PrintT(<<"CASE", ToJson(p)>>)
=============================================================================
