--------------------------- MODULE Trace_Repo_C04 ---------------------------
(* Judge for derive runs recorded from the repository's own inputs (hook events + return value).
   One record per run:
     names   : raw type-level instruction names as written, in order           (hook on_instr)
     traits  : the parsed trait instructions [kinds, fallible, cp, err]        (hook on_parsed)
     emitted : impls about to be rendered [k, f, cp], in order                 (hook on_impl)
     impls   : impl headers read back from the returned token stream by syn
   Explained by: (a) the applicability table on raw names, (b) EmitImpl: every emitted descriptor is a
   pending one and none is left, (c) the header bag equals the documented bag. *)
EXTENDS O2OSyntax, TLC, Json, IOUtils
Rec == ndJsonDeserialize(IOEnv.TRACE)
VARIABLE l
ToSetS(s) == {s[i] : i \in DOMAIN s}
TraitNamesWritten(r) == SelectSeq(r.names, LAMBDA n : n \in TraitNames)
TableOk(r) == LET ns == TraitNamesWritten(r) IN
              /\ Len(ns) = Len(r.traits)
              /\ \A i \in DOMAIN ns : /\ ToSetS(r.traits[i].kinds) = Appl(ns[i])
                                      /\ r.traits[i].fallible = Fallible(ns[i])
ImplOfD(t, k) == [trait |-> TraitOf(k, t.fallible), byref |-> IsRef(k), from |-> IsFrom(k), cp |-> t.cp, err |-> IF t.fallible THEN t.err ELSE "-"]
ExpBagD(ts) == LET S == UNION {{ImplOfD(ts[i], k) : k \in ToSetS(ts[i].kinds)} : i \in DOMAIN ts} IN
               [d \in S |-> Cardinality({<<i, k>> \in (DOMAIN ts) \X Kinds : k \in ToSetS(ts[i].kinds) /\ ImplOfD(ts[i], k) = d})]
ObsBag(impls) == LET S == ToSetS(impls) IN [d \in S |-> Cardinality({i \in DOMAIN impls : impls[i] = d})]
\* pending descriptors after validation, as the pipeline machine's EmitImpl sees them
PendingD(ts) == {<<i, k>> \in (DOMAIN ts) \X Kinds : k \in ToSetS(ts[i].kinds)}
EmittedOk(r) == /\ Len(r.emitted) = Cardinality(PendingD(r.traits))
                /\ \A p \in PendingD(r.traits) :
                     Cardinality({j \in DOMAIN r.emitted : r.emitted[j].k = p[2] /\ r.emitted[j].f = r.traits[p[1]].fallible /\ r.emitted[j].cp = r.traits[p[1]].cp})
                     = Cardinality({q \in PendingD(r.traits) : q[2] = p[2] /\ r.traits[q[1]].fallible = r.traits[p[1]].fallible /\ r.traits[q[1]].cp = r.traits[p[1]].cp})
Symptom(r) ==
  IF ~TableOk(r) THEN "applicability_table"
  ELSE IF r.verdict = "ok" /\ ~EmittedOk(r) THEN "emission_events"
  ELSE IF r.verdict = "ok" /\ ObsBag(r.impls) # ExpBagD(r.traits) THEN "impl_bag"
  ELSE IF r.verdict = "unparseable" THEN "unparseable"
  ELSE "-"
Init == l = 1
Consume == /\ l <= Len(Rec)
           /\ (IF Symptom(Rec[l]) = "-" THEN TRUE
               ELSE PrintT(<<"MISMATCH", ToJson([id |-> Rec[l].id, origin |-> Rec[l].origin, dt |-> Rec[l].dt, symptom |-> Symptom(Rec[l]),
                                                 names |-> Rec[l].names, traits |-> Rec[l].traits, verdict |-> Rec[l].verdict,
                                                 impls |-> Rec[l].impls, emitted |-> Rec[l].emitted])>>))
           /\ l' = l + 1
Spec == Init /\ [][Consume]_l
Accepted == TLCGet("stats").diameter - 1 = Len(Rec)
=============================================================================
