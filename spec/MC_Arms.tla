------------------------------ MODULE MC_Arms ------------------------------
(* C16 (and C17/C18/C19 ride on it): "arm coverage" inputs -- every combination of type kind, shape, type hint, conversion
   kind and small sets of member-level instructions, valid or not, so that every arm of the renderers' case analyses
   (and every guard in front of an unreachable!/todo!/unwrap) is approached from every side.
     a == [dt, shape, hint, tn (trait instruction name), tparam, ms: Seq(Seq(instr name)), fs: Seq(instr name) (instructions of the
           payload field of variant 1)] *)
EXTENDS Naturals, Sequences, FiniteSets, TLC, Json
CONSTANTS MaxMembers, MaxPerMember, TNs, SMenu, VMenu, FMenu, TParams, TExtras
VARIABLE a
Shapes(dt) == IF dt = "struct" THEN {"named", "tuple", "unit"} ELSE {"unit", "tuple", "named"}   \* for enums: shape of variant 1
Init == \E dt \in {"struct", "enum"}, tn \in TNs, h \in {"-", "struct", "tuple", "unit"}, tp \in TParams, tx \in TExtras :
          \E sh \in Shapes(dt) : (dt = "enum" => h = "-")
            /\ a = [dt |-> dt, shape |-> sh, hint |-> h, tn |-> tn, tparam |-> tp, textra |-> tx, ms |-> <<>>, fs |-> <<>>]
Menu == IF a.dt = "struct" THEN SMenu ELSE VMenu
AddMember == Len(a.ms) < MaxMembers /\ ~(a.dt = "struct" /\ a.shape = "unit") /\ a' = [a EXCEPT !.ms = Append(@, <<>>)]
AddInstr(n) == /\ a.ms # <<>> /\ Len(a.ms[Len(a.ms)]) < MaxPerMember
               /\ (Len(a.ms[Len(a.ms)]) > 0 => \A j \in DOMAIN a.ms[Len(a.ms)] : a.ms[Len(a.ms)][j] # n)
               /\ a' = [a EXCEPT !.ms[Len(a.ms)] = Append(@, n)]
AddFieldInstr(n) == a.dt = "enum" /\ a.shape # "unit" /\ Len(a.ms) = 1 /\ a.fs = <<>> /\ a' = [a EXCEPT !.fs = <<n>>]
Next == AddMember \/ (\E n \in Menu : AddInstr(n)) \/ (\E n \in FMenu : AddFieldInstr(n))
Spec == Init /\ [][Next]_a
Emit == PrintT(<<"CASE", ToJson(a)>>)
=============================================================================
