----------------------------- MODULE Trace_C03 -----------------------------
EXTENDS O2OFlatten, Json, IOUtils
Rec == ndJsonDeserialize(IOEnv.TRACE)
VARIABLES l
ObsSet(r) == {r.obs[i] : i \in DOMAIN r.obs}
Others(r) == {r.others[i] : i \in DOMAIN r.others}
Conforms(r) == ObsSet(r) = Expected(r.in, r.k, Others(r))
Init == l = 1
Consume == /\ l <= Len(Rec)
           /\ (IF Conforms(Rec[l]) THEN TRUE
               ELSE PrintT(<<"MISMATCH", l, Rec[l].case, Rec[l].in, Rec[l].k, Rec[l].f, "expected", Expected(Rec[l].in, Rec[l].k, Others(Rec[l])), "observed", ObsSet(Rec[l])>>))
           /\ l' = l + 1
Spec == Init /\ [][Consume]_l
Accepted == TLCGet("stats").diameter - 1 = Len(Rec)
=============================================================================
