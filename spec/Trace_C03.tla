----------------------------- MODULE Trace_C03 -----------------------------
(* Judge of run-time observations of flattened struct conversions (real proc-macro, executed). *)
EXTENDS O2OFlatten, Json, IOUtils
Rec == ndJsonDeserialize(IOEnv.TRACE)
VARIABLES l
ObsSet(r) == {r.obs[i] : i \in DOMAIN r.obs}
Others(r) == {r.others[i] : i \in DOMAIN r.others}
C03Symptom(r) ==
  IF r.res # "ok" THEN "unexpected_error"
  ELSE LET E == Expected(r.in, r.k, Others(r))  O == ObsSet(r) IN
       IF O = E THEN "-"
       ELSE IF {w.leaf : w \in O} # {w.leaf : w \in E} THEN "leaf_set_differs"
       ELSE IF \E w \in E : w \notin O /\ w.val = "P." \o w.leaf THEN "unmapped_leaf_clobbered"
       ELSE IF \E w \in O : w \notin E /\ w.val = "P." \o w.leaf THEN "mapped_leaf_not_written"
       ELSE "wrong_value"
PoisonIdx(vec) == CHOOSE i \in 1..9 : vec = "poison" \o ToString(i)
C07pSymptom(r) == LET i == PoisonIdx(r.vec) IN
  IF i \in Sites(r.in) THEN (IF r.res = "err" /\ r.errn = i THEN "-" ELSE IF r.res = "ok" THEN "error_swallowed" ELSE "wrong_error")
  ELSE (IF r.res = "ok" THEN "-" ELSE "spurious_error")
\* a compile failure: the algorithm model predicts exactly the inputs for which a nested struct is constructed twice (rustc E0062)
CFSymptom(r) == IF r.e0062 THEN "nested_struct_built_twice" ELSE "does_not_compile"
\* a compiled case for which the model predicts a double construction: the model does not describe the code
OKSymptom(r) == IF DupConstruct(FieldsOf(r.in)) THEN "model_predicts_dup_but_compiles" ELSE "-"
Symptom(r) == CASE r.prop = "C03" -> C03Symptom(r) [] r.prop = "C07p" -> C07pSymptom(r) [] r.prop = "CF" -> CFSymptom(r) [] r.prop = "OK" -> OKSymptom(r)
Report(r) == CASE r.prop \in {"CF", "OK"} -> [case |-> r.case, prop |-> r.prop, symptom |-> Symptom(r), cell |-> Cell(r.in, "any", FALSE), errors |-> r.errors]
               [] r.prop = "C03" -> [case |-> r.case, prop |-> r.prop, symptom |-> Symptom(r), cell |-> Cell(r.in, r.k, r.f),
                                     expected |-> Expected(r.in, r.k, Others(r)), observed |-> ObsSet(r)]
               [] OTHER -> [case |-> r.case, prop |-> r.prop, symptom |-> Symptom(r), cell |-> Cell(r.in, r.k, r.f), vec |-> r.vec, res |-> r.res, errn |-> r.errn]
Init == l = 1
Consume == /\ l <= Len(Rec)
           /\ (IF Symptom(Rec[l]) = "-" THEN TRUE ELSE PrintT(<<"MISMATCH", ToJson(Report(Rec[l]))>>))
           /\ l' = l + 1
Spec == Init /\ [][Consume]_l
Accepted == TLCGet("stats").diameter - 1 = Len(Rec)
=============================================================================
