SPECIFICATION Spec
CONSTANT MaxLen = 2
INVARIANTS Emit InvNonInterference InvOtherCounterpart
CHECK_DEADLOCK FALSE
