SPECIFICATION Spec
CONSTANTS
  Mode = "member"
  MaxLen = 4
  RepChoices = {{}}
  OwnChoices = {{}, {"child"}}
  TNames = {"x"}
INVARIANTS FoldOk Emit
CHECK_DEADLOCK FALSE
