----------------------------- MODULE Trace_C15 -----------------------------
(* Judge for C15: the diagnostics of the real derive, mapped to (class/argument) keys by key phrases, against Faults(in).
   complete: every broken rule is reported;  sound: nothing is reported that no rule explains;  accept iff no rule is broken. *)
EXTENDS O2OValidate, Json, IOUtils
Rec == ndJsonDeserialize(IOEnv.TRACE)
VARIABLE l
ObsKeys(r) == {r.classes[i] : i \in DOMAIN r.classes}
ClassOf(key) == key   \* keys are "class/arg"
Symptom(r) ==
  LET e == FaultKeys(r.in)  o == ObsKeys(r) IN
  IF r.verdict = "panic" THEN (IF FaultKeys(r.in) = {} THEN "-"     \* no rule broken and a panic: C16's violation (it replays this very stream)
                              ELSE "faulty_input_panics_instead_of_diagnostic")
  ELSE IF e = {} THEN (IF r.verdict = "ok" THEN "-" ELSE "valid_input_rejected")
  ELSE IF r.verdict # "err" THEN "faulty_input_accepted"
  ELSE IF \E k \in e : k \notin o THEN "diagnostic_missing"
  ELSE IF \E k \in o : k \notin e THEN "spurious_diagnostic"
  ELSE IF Len(r.other) > 0 THEN "unclassified_diagnostic"
  ELSE "-"
Missing(r) == FaultKeys(r.in) \ ObsKeys(r)
Spurious(r) == ObsKeys(r) \ FaultKeys(r.in)
Init == l = 1
Consume == /\ l <= Len(Rec)
           /\ (IF Symptom(Rec[l]) = "-" THEN TRUE
               ELSE PrintT(<<"MISMATCH", ToJson([id |-> Rec[l].id, symptom |-> Symptom(Rec[l]), missing |-> Missing(Rec[l]), spurious |-> Spurious(Rec[l]),
                                                 expected |-> FaultKeys(Rec[l].in), observed |-> ObsKeys(Rec[l]), other |-> Rec[l].other, verdict |-> Rec[l].verdict,
                                                 dt |-> Rec[l].in.dt, shape |-> Rec[l].in.shape])>>))
           /\ l' = l + 1
Spec == Init /\ [][Consume]_l
Accepted == TLCGet("stats").diameter - 1 = Len(Rec)
=============================================================================
