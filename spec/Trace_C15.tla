----------------------------- MODULE Trace_C15 -----------------------------
EXTENDS O2OValidate, Json, IOUtils
Rec == ndJsonDeserialize(IOEnv.TRACE)
VARIABLE l
ObsClasses(r) == {r.classes[i] : i \in DOMAIN r.classes}
ExpClasses(in) == {x.c \o "/" \o x.a : x \in Faults(in)}
\* complete (every fault reported), sound (nothing else reported by these rule classes), and accept iff no fault
Conforms(r) == LET e == ExpClasses(r.in) IN
               IF e = {} THEN r.verdict = "ok" ELSE r.verdict = "err" /\ ObsClasses(r) = e
Init == l = 1
Consume == /\ l <= Len(Rec)
           /\ (IF Conforms(Rec[l]) THEN TRUE ELSE PrintT(<<"MISMATCH", l, Rec[l].id, Rec[l].src, "expected", ExpClasses(Rec[l].in), "observed", Rec[l].verdict, ObsClasses(Rec[l]), Rec[l].other>>))
           /\ l' = l + 1
Spec == Init /\ [][Consume]_l
Accepted == TLCGet("stats").diameter - 1 = Len(Rec)
=============================================================================
