------------------------------ MODULE O2OEnum ------------------------------
(* C02: enum conversions, requirement layer (DESIGN Appendix C).
   in == [vs |-> Seq([shape |-> "unit"|"tuple"|"named", it |-> VItem, fs |-> Seq(FItem),
                      vg |-> Nat]),   \* variant-level #[ghosts(..)] entries: fields only the counterpart variant has (Into supplies them, From ignores them)
          dflt |-> BOOLEAN,
          eg |-> Nat]        \* enum-level #[ghosts(X<j>: {..})] entries: counterpart-only variants converted to a given value by From *)
EXTENDS O2OSyntax, TLC
VItems == {"none", "ren", "vexpr", "ghostd", "ghost", "hint_tuple", "hint_struct", "hint_unit", "hint_tuple_ded"}
\* vexpr: a unit variant with variant-level expressions: #[into(RV<i>, {expr})] (Into yields the value of the expression) and #[from(RV<i>, {expr})]
\* hint_tuple_ded: a default #[type_hint(as Unit)] written first + #[type_hint(T| as ())] dedicated to each counterpart (the dedicated one counts)
FItems == {"none", "ren", "expr", "renexpr", "swap", "swapexpr", "ghostd"}
\* renexpr: the counterpart field is named (by name or index) AND an inline expression is given;
\* swap / swapexpr: the mapped payload fields name each other's counterpart fields in mirrored order (field 1 <-> last, ...), without / with expression
IsRenF(f)  == f \in {"ren", "renexpr", "swap", "swapexpr"}
HasExprF(f) == f \in {"expr", "renexpr", "swapexpr"}
IsSwapF(f) == f \in {"swap", "swapexpr"}
N2S(i) == ToString(i)

VName(i) == "V" \o N2S(i)
CVName(in, i) == IF in.vs[i].it \in {"ren", "vexpr"} THEN "RV" \o N2S(i) ELSE VName(i)
IsGhostV(v) == v.it \in {"ghostd", "ghost"}
\* payload form on the counterpart side
CForm(v) == CASE v.it \in {"hint_tuple", "hint_tuple_ded"} -> "tuple" [] v.it = "hint_struct" -> "named" [] v.it = "hint_unit" -> "unit" [] OTHER -> v.shape

OwnF(v, j) == IF v.shape = "named" THEN "x" \o N2S(j) ELSE N2S(j - 1)
Mapped(v) == {j \in DOMAIN v.fs : v.fs[j] # "ghostd"}
PosF(v, j) == Cardinality({m \in Mapped(v) : m < j})
\* the mapped field that stands at the mirrored position of field j
Mirror(v, j) == CHOOSE m \in Mapped(v) : PosF(v, m) = Cardinality(Mapped(v)) - 1 - PosF(v, j)
TargetF(v, j) == IF IsSwapF(v.fs[j]) THEN Mirror(v, j) ELSE j
CF(v, j) == IF CForm(v) = "named" THEN (IF IsRenF(v.fs[j]) \/ v.shape = "tuple" THEN "r" \o N2S(TargetF(v, j)) ELSE "x" \o N2S(j))
            ELSE N2S(PosF(v, TargetF(v, j)))
\* counterpart-only payload fields supplied by variant-level ghosts: named y<k>, or the positions after the mapped fields
VGLeaf(v, k) == IF CForm(v) = "named" THEN "y" \o N2S(k) ELSE N2S(Cardinality(Mapped(v)) + k - 1)
Tag(i, j, x) == "t" \o N2S(i) \o "_" \o N2S(j) \o "(" \o x \o ")"

WellFormed(in) ==
  /\ Len(in.vs) >= 1
  /\ \A i \in DOMAIN in.vs : LET v == in.vs[i] IN
       /\ (v.shape = "unit" => v.fs = <<>>) /\ (v.shape # "unit" => Len(v.fs) >= 1)
       \* tuple -> named needs member names (class 9): the generator names every mapped field then
       /\ (v.shape = "tuple" /\ CForm(v) = "named") => \A j \in Mapped(v) : IsRenF(v.fs[j])
       \* mirrored targets are a permutation only when every mapped field takes part
       /\ (\E j \in Mapped(v) : IsSwapF(v.fs[j])) => (\A j \in Mapped(v) : IsSwapF(v.fs[j])) /\ Cardinality(Mapped(v)) >= 2
       \* a unit counterpart variant cannot feed payload fields (From) -- only all-ghost payloads are well-formed
       /\ (CForm(v) = "unit" /\ v.shape # "unit") => Mapped(v) = {}
       /\ (CForm(v) # "unit") => (Mapped(v) # {} \/ v.shape = "unit")
       /\ (v.shape = "unit" => v.it \notin {"hint_unit"})
       /\ (v.it = "vexpr" => v.shape = "unit")
       \* positional counterpart payload: ghosts only trailing (same-position is ambiguous otherwise, DESIGN 8.1);
       \* with a named counterpart payload (type_hint(as {})) every mapped field names its target, so ghosts may stand anywhere
       /\ CForm(v) = "tuple" => \A a, b \in DOMAIN v.fs : a < b /\ v.fs[a] = "ghostd" => v.fs[b] = "ghostd"
       \* variant-level ghosts complete a payload that exists
       /\ (v.vg > 0 => v.shape # "unit" /\ CForm(v) # "unit" /\ ~IsGhostV(v))
  \* a ghost variant without default needs the default case for Into
  /\ (\E i \in DOMAIN in.vs : in.vs[i].it = "ghost") => in.dflt
  /\ (\E i \in DOMAIN in.vs : ~IsGhostV(in.vs[i]))

\* From of a counterpart-only variant X<j>: the value of the enum-level ghosts entry (observable as own variant marker "EG<j>")
\* (modelled through a dedicated unit variant of the deriving enum that is itself a ghost for Into)
Cell(in, i, k) == [kind |-> k, shape |-> in.vs[i].shape, cform |-> CForm(in.vs[i]), vitem |-> in.vs[i].it,
                   idx_member_no_action |-> in.vs[i].shape = "tuple" /\ CForm(in.vs[i]) # "named" /\ \E j \in DOMAIN in.vs[i].fs : in.vs[i].fs[j] \in {"ren", "swap"},
                   crossed |-> \E j \in DOMAIN in.vs[i].fs : IsSwapF(in.vs[i].fs[j])]
\* From: counterpart variant i (non-ghost) with leaves "D.<cf>"  ->  own variant i
FromExp(in, i) ==
  LET v == in.vs[i] IN
  [variant |-> VName(i),
   leaves |-> {[leaf |-> OwnF(v, j), val |-> IF v.fs[j] = "ghostd" THEN "g" \o N2S(i) \o "_" \o N2S(j) \o "()"
                                             ELSE IF HasExprF(v.fs[j]) THEN Tag(i, j, "D." \o CF(v, j)) ELSE "D." \o CF(v, j)] : j \in DOMAIN v.fs}]
\* Into: own variant i with leaves "S.<own>"  ->  counterpart variant, or the ghost default, or the default case
IntoExp(in, i) ==
  LET v == in.vs[i] IN
  IF v.it = "ghostd" THEN [variant |-> "GHOSTDEFAULT" \o N2S(i), leaves |-> {}]
  ELSE IF v.it = "ghost" THEN [variant |-> "DEFAULTCASE", leaves |-> {}]
  ELSE IF v.it = "vexpr" THEN [variant |-> "GHOSTDEFAULT" \o N2S(500 + i), leaves |-> {}]     \* the value of the variant-level expression (a marker)
  ELSE [variant |-> CVName(in, i),
        leaves |-> {[leaf |-> CF(v, j), val |-> IF HasExprF(v.fs[j]) THEN Tag(i, j, "S." \o OwnF(v, j)) ELSE "S." \o OwnF(v, j)] : j \in Mapped(v)}
                   \cup {[leaf |-> VGLeaf(v, k), val |-> "vg" \o N2S(i) \o "_" \o N2S(k) \o "()"] : k \in 1..v.vg}]
\* From of the counterpart-only variant X<j>: the value the enum-level ghosts entry gives (the marker variant EG<j> of the deriving enum)
FromGhostExp(j) == [variant |-> "EG" \o N2S(j), leaves |-> {}]
=============================================================================
