SPECIFICATION Spec
CONSTANTS
  MaxTraits = 2
  MaxTAttrs = 1
  MaxMembers = 1
  MaxVFields = 0
  VFMenu = {}
  MaxMAttrs = 1
  DTs = {"struct", "enum"}
  Shapes = {"named"}
  TNames = {"map", "owned_into"}
  Hints = {"-"}
  TMenu = {"ghosts"}
  MMenu = {"map"}
  FixedTraits <- NoTraits
  SpellAll = TRUE
  TCps = {"-"}
  MCps = {"-"}
INVARIANT Emit
CHECK_DEADLOCK FALSE
