----------------------------- MODULE O2OGenerics -----------------------------
(* C11: the impl header for a generic deriving type.
     g == [ps   |-> Seq(param)        param \in {"la", "lb", "T", "Tb", "Td", "N", "Nd"}   ('a | 'b: 'a | T | T: Clone | T = u8 | const N: usize | const N: usize = 1)
           cargs|-> "none" | "same" | "concrete" | "foreign" | "foreign2" | "static"   ("foreign2": the foreign lifetime occurs twice, D<'x, 'x>)                     (generic arguments written on the counterpart path)
           wc   |-> "none" | "default" | "dedicated" | "both"]                              (#[where_clause] instructions)
   Header(g, k) is what the impl for conversion kind k must declare (README "Generics", "Where clauses", "Reference with lifetime"). *)
EXTENDS O2OSyntax, TLC

IsLt(p) == p \in {"la", "lb"}
PName(p) == CASE p = "la" -> "'a" [] p = "lb" -> "'b" [] p \in {"T", "Tb", "Td"} -> "T" [] p \in {"N", "Nd"} -> "N"
PKind(p) == IF IsLt(p) THEN "lt" ELSE IF p \in {"N", "Nd"} THEN "const" ELSE "ty"
PBounds(p) == CASE p = "lb" -> <<"'a">> [] p = "Tb" -> <<"Clone">> [] OTHER -> <<>>
HasDefault(p) == p \in {"Td", "Nd"}

\* a legal generic parameter list: lifetimes first, no name twice, 'b: 'a needs 'a, defaults trailing
Legal(ps) == /\ \A i, j \in DOMAIN ps : i < j => PName(ps[i]) # PName(ps[j])
             /\ \A i, j \in DOMAIN ps : i < j /\ IsLt(ps[j]) => IsLt(ps[i])
             /\ \A i \in DOMAIN ps : ps[i] = "lb" => \E j \in DOMAIN ps : ps[j] = "la"
             /\ \A i, j \in DOMAIN ps : i < j /\ HasDefault(ps[i]) => HasDefault(ps[j])

OwnLts(g) == SelectSeq(g.ps, IsLt)
\* lifetimes written in the counterpart's path
CpLts(g) == CASE g.cargs = "same" -> [i \in DOMAIN OwnLts(g) |-> PName(OwnLts(g)[i])]
              [] g.cargs = "foreign" -> <<"'x">>
              [] g.cargs = "foreign2" -> <<"'x", "'x">>
              [] g.cargs = "foreign3" -> <<"'x", "'w", "'x">>          \* a repeated foreign lifetime around a second one (order of first occurrence)
              [] g.cargs = "static" -> <<"'static">>
              [] OTHER -> <<>>
\* lifetimes that occur only in the counterpart's path must be declared on the impl ('static is not a parameter)
RECURSIVE Dedup(_, _)
Dedup(s, seen) == IF s = <<>> THEN <<>> ELSE IF s[1] \in seen THEN Dedup(Tail(s), seen) ELSE <<s[1]>> \o Dedup(Tail(s), seen \cup {s[1]})
CpOnlyLts(g) == Dedup(SelectSeq(CpLts(g), LAMBDA x : x # "'static" /\ \A i \in DOMAIN g.ps : PName(g.ps[i]) # x), {})
\* the lifetimes the fresh 'o2o must outlive: those of the type the result borrows into
RefLts(g, k) == IF ~IsRef(k) THEN <<>>
                ELSE IF IsFrom(k) THEN [i \in DOMAIN OwnLts(g) |-> PName(OwnLts(g)[i])]
                ELSE Dedup(SelectSeq(CpLts(g), LAMBDA x : x # "'static"), {})      \* 'static is not a parameter: nothing to outlive
NeedsO2O(g, k) == RefLts(g, k) # <<>>

\* declared parameters of the impl: [k, name, bounds, default]  -- the type's own (bounds kept, defaults dropped: an impl cannot carry them),
\* then counterpart-only lifetimes, then 'o2o
Declared(g, k) ==
  [i \in DOMAIN g.ps |-> [k |-> PKind(g.ps[i]), name |-> PName(g.ps[i]), bounds |-> PBounds(g.ps[i]), default |-> "-"]]
  \o [i \in DOMAIN CpOnlyLts(g) |-> [k |-> "lt", name |-> CpOnlyLts(g)[i], bounds |-> <<>>, default |-> "-"]]
  \o (IF NeedsO2O(g, k) THEN <<[k |-> "lt", name |-> "'o2o", bounds |-> RefLts(g, k), default |-> "-"]>> ELSE <<>>)
\* the deriving type in argument form: names only
SelfArgs(g) == [i \in DOMAIN g.ps |-> PName(g.ps[i])]
\* where-clause: dedicated to the counterpart, else default
Where(g) == CASE g.wc \in {"dedicated", "both"} -> <<"T:Dedicated">> [] g.wc = "default" -> <<"T:Defaulted">> [] OTHER -> <<>>
BorrowLt(g, k) == IF NeedsO2O(g, k) THEN "'o2o" ELSE ""

\* design-level: every parameter is declared exactly once, and every lifetime used in the header is declared
DeclaredOnce(g, k) == \A i, j \in DOMAIN Declared(g, k) : i # j => Declared(g, k)[i].name # Declared(g, k)[j].name
LifetimesCovered(g, k) == \A i \in DOMAIN CpLts(g) : CpLts(g)[i] = "'static" \/ \E j \in DOMAIN Declared(g, k) : Declared(g, k)[j].name = CpLts(g)[i]
=============================================================================
