----------------------------- MODULE O2OLookup -----------------------------
(* C05 / C06: which instruction takes effect for a conversion.  Formal reading of the property statements:
   ghost first; else the instruction of exactly that kind; else (fallible conversion) the infallible one of that kind;
   else (into_existing) the corresponding `into` instruction, same fallibility first; at each step an instruction
   dedicated to the counterpart beats the default one.  Type-level and variant-level instructions (ghosts, where_clause,
   child_parents, child, parent, literal, pattern, type_hint): dedicated else default. *)
EXTENDS O2OSyntax

\* an instruction is [n |-> name, cp |-> "-" | counterpart id]
IsGhostName(n) == n \in GhostNames
Nz(a, b) == IF a # 0 THEN a ELSE b

\* dedicated beats default; among equals the first in written order
Pick(instrs, Ok(_), cp) ==
  LET d == First(LAMBDA i : Ok(instrs[i]) /\ instrs[i].cp = cp, Len(instrs)) IN
  IF d # 0 THEN d ELSE First(LAMBDA i : Ok(instrs[i]) /\ instrs[i].cp = "-", Len(instrs))

GhostOf(instrs, k, cp)    == Pick(instrs, LAMBDA x : IsGhostName(x.n) /\ k \in Appl(x.n), cp)
ExactOf(instrs, k, f, cp) == Pick(instrs, LAMBDA x : ~IsGhostName(x.n) /\ Fallible(x.n) = f /\ k \in Appl(x.n), cp)
IntoOf(k) == IF k = "OIE" THEN "OI" ELSE IF k = "RIE" THEN "RI" ELSE "-"

Applicable(instrs, k, f, cp) ==
  LET g == GhostOf(instrs, k, cp) IN
  IF g # 0 THEN [ghost |-> TRUE, i |-> g]
  ELSE [ghost |-> FALSE,
        i |-> Nz(ExactOf(instrs, k, f, cp),
              Nz(IF f THEN ExactOf(instrs, k, FALSE, cp) ELSE 0,
              Nz(IF IntoOf(k) # "-" THEN ExactOf(instrs, IntoOf(k), f, cp) ELSE 0,
                 IF IntoOf(k) # "-" /\ f THEN ExactOf(instrs, IntoOf(k), FALSE, cp) ELSE 0)))]

\* type-level / variant-level lookups: dedicated else default (no kind dimension except for ghosts)
TypeLevel(instrs, name, cp) == Pick(instrs, LAMBDA x : x.n = name, cp)
TypeLevelGhosts(instrs, k, cp) == Pick(instrs, LAMBDA x : x.n \in GhostsNames /\ k \in Appl(x.n), cp)

\* design-level theorem: appending an instruction that is not the one chosen for (k, f, cp) changes nothing for (k, f, cp)
NonInterference(instrs, CPs) ==
  Len(instrs) >= 1 =>
    LET n == Len(instrs)  pre == SubSeq(instrs, 1, n - 1) IN
    \A k \in Kinds, f \in BOOLEAN, cp \in CPs :
      Applicable(instrs, k, f, cp).i # n => Applicable(instrs, k, f, cp) = Applicable(pre, k, f, cp)
\* design-level theorem: a dedicated instruction for another counterpart never matters
OtherCounterpartIrrelevant(instrs, CPs) ==
  \A k \in Kinds, f \in BOOLEAN, cp \in CPs :
    LET mine == SelectSeq(instrs, LAMBDA x : x.cp \in {"-", cp})
        a == Applicable(instrs, k, f, cp)  b == Applicable(mine, k, f, cp) IN
    a.ghost = b.ghost /\ (a.i = 0) = (b.i = 0) /\ (a.i # 0 => instrs[a.i] = mine[b.i])
=============================================================================
