SPECIFICATION Spec
CONSTANTS
  MaxBase = 3
  MaxOwn = 3
  VarsSet = {0, 1}
INVARIANTS Emit OneEach
CHECK_DEADLOCK FALSE
