------------------------------ MODULE MC_C12 ------------------------------
(* C12 generator: an instruction list (type level: trait instructions; member level: member instructions of one member, each with
   an id that names its markers) and the position of the shortcut to write out (0 = all of them). *)
EXTENDS O2ORewrite, TLC, Json
CONSTANTS Mode, MaxLen
VARIABLES s, pos
MNames == MemberMapNames \cup GhostNames
Init == s = <<>> /\ pos = 0
AddT(n, cp) == Len(s) < MaxLen /\ s' = Append(s, [n |-> n, cp |-> cp, err |-> IF Fallible(n) THEN "E1" ELSE "-"]) /\ pos' = 0
AddM(n, cp) == Len(s) < MaxLen /\ s' = Append(s, [n |-> n, cp |-> cp, id |-> Len(s) + 1]) /\ pos' = 0
Choose(p) == pos = 0 /\ p \in DOMAIN s /\ (IF Mode = "type" THEN IsShortcut(s[p].n) ELSE IsShortcut(s[p].n) \/ s[p].n = "ghost") /\ pos' = p /\ UNCHANGED s
Next == \/ (Mode = "type" /\ \E n \in TraitNames, cp \in {"A", "B"} : AddT(n, cp))
        \/ (Mode = "member" /\ \E n \in MNames, cp \in {"-", "A", "B"} : AddM(n, cp))
        \/ \E p \in 1..MaxLen : Choose(p)
Spec == Init /\ [][Next]_<<s, pos>>
NoDup == Mode = "type" => ~DupConv(s)
Emit == (s # <<>> /\ NoDup) => PrintT(<<"CASE", ToJson([mode |-> Mode, s |-> s, pos |-> pos, s2 |-> WriteOut(s, pos)])>>)
Equivalent == IF Mode = "type" THEN TypeLevelEquivalent(s, pos) ELSE MemberLevelEquivalent(s, pos, {"A", "B"})
=============================================================================
