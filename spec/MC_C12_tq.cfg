SPECIFICATION Spec
CONSTANTS
  Mode = "type"
  MaxLen = 2
INVARIANTS Emit Equivalent
CHECK_DEADLOCK FALSE
