SPECIFICATION Spec
CONSTANTS
  MaxTraits = 2
  MaxTAttrs = 2
  MaxMembers = 1
  MaxVFields = 0
  VFMenu = {}
  MaxMAttrs = 2
  DTs = {"struct"}
  Shapes = {"named"}
  TNames = {"into", "from_owned"}
  Hints = {"-"}
  TMenu = {"child_parents", "child_parents_q", "child_parents_pq"}
  MMenu = {"child", "child_pq"}
  FixedTraits <- NoTraits
  SpellAll = FALSE
  TCps = {"-", "A", "B"}
  MCps = {"-", "A", "B"}
INVARIANT Emit
CHECK_DEADLOCK FALSE
