SPECIFICATION Spec
CONSTANTS
  MaxMembers = 3
  Items = {"none", "ren", "expr", "renexpr", "var", "ghostd", "ghostb"}
  Shapes = {"named", "tuple"}
  Forms = {"same", "struct"}
  SGs = {0, 1}
  SGModes = {"both", "split"}
  VarsSet = {0, 1, 2}
  Upds = {FALSE, TRUE}
  TupleGhosts = FALSE
  Rets = {FALSE, TRUE}
INVARIANTS Emit IntoExistingAgrees RefAgreesWithOwned OneDesignationPerLeaf RoundTrip
CHECK_DEADLOCK FALSE
