------------------------------ MODULE MC_Pipe ------------------------------
(* Generator for the pipeline trace validation: every input the Author actions of O2OPipe can build (emitted at Seal). *)
EXTENDS O2OPipe, Json, TLC
EmitInput == (pc = "parse_type" /\ ti = 1 /\ traits = <<>>) => PrintT(<<"CASE", ToJson(in)>>)
\* only the author phase and the seal are explored by the generator
AllTraitNames == TraitNames
GenConstraint == pc \in {"author", "parse_type"} /\ ti = 1
=============================================================================
