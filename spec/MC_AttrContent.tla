------------------------------ MODULE MC_AttrContent ------------------------------
(* C18 / C08: what may stand inside attribute(...), impl_attribute(...), inner_attribute(...): any legal Rust attribute content -- paths, nested lists
   with arbitrary tokens, name = expression -- on every trait instruction family. *)
EXTENDS Naturals, Sequences, TLC, Json
Contents == {"inline", "allow(unused)", "cfg(any(a, b = \"c\"))", "cfg_attr(test, allow(x))", "doc = \"text\"", "doc = concat!(\"a\", \"b\")",
             "instrument(skip_all, fields(x = value.x))", "test_case(1, 2 => 3)", "a::b::c(d)", "x = 1 + 2", "unsafe(no_mangle)", "derive_where(T: Clone; U)",
             "serde(rename = \"q\", default)", "rustfmt::skip"}
Params == {"attribute", "impl_attribute", "inner_attribute"}
Names == {"map", "from_owned", "try_into", "into_existing", "ref_try_into_existing"}
VARIABLE a
Init == \E c \in Contents, p \in Params, n \in Names, dt \in {"struct", "enum"} : a = [c |-> c, p |-> p, n |-> n, dt |-> dt]
Next == UNCHANGED a
Spec == Init /\ [][Next]_a
Emit == PrintT(<<"CASE", ToJson(a)>>)
=============================================================================
