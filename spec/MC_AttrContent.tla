------------------------------ MODULE MC_AttrContent ------------------------------
(* C18 / C08: what may stand inside attribute(...), impl_attribute(...), inner_attribute(...): any legal Rust attribute content -- paths, nested lists
   with arbitrary tokens, name = expression -- on every trait instruction family. *)
EXTENDS Naturals, Sequences, TLC, Json
Contents == {"inline", "allow(unused)", "cfg(any(a, b = \"c\"))", "cfg_attr(test, allow(x))", "doc = \"text\"", "doc = concat!(\"a\", \"b\")",
             "instrument(skip_all, fields(x = value.x))", "test_case(1, 2 => 3)", "a::b::c(d)", "x = 1 + 2", "unsafe(no_mangle)", "derive_where(T: Clone; U)",
             "serde(rename = \"q\", default)", "rustfmt::skip"}
\* foreign_type / foreign_member: the same content as somebody else's bare attribute on the deriving type / on its members (variants and payload
\* fields): o2o must pass over it, whatever its tokens are, with both back-ends
Params == {"attribute", "impl_attribute", "inner_attribute", "foreign_type", "foreign_member"}
Names == {"map", "from_owned", "try_into", "into_existing", "ref_try_into_existing"}
VARIABLE a
\* (syn 1 itself cannot read `#[unsafe(..)]` as an attribute of the item - the derive input never reaches o2o - so that content stays inside parameters)
Init == \E c \in Contents, p \in Params, n \in Names, dt \in {"struct", "enum"} :
           /\ (p \in {"foreign_type", "foreign_member"} => c # "unsafe(no_mangle)")
           /\ a = [c |-> c, p |-> p, n |-> n, dt |-> dt]
Next == UNCHANGED a
Spec == Init /\ [][Next]_a
Emit == PrintT(<<"CASE", ToJson(a)>>)
=============================================================================
