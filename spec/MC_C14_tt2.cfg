SPECIFICATION Spec
CONSTANTS
  Mode = "trait"
  MaxLen = 3
  RepChoices = {{}, {"vars"}}
  OwnChoices = {{}, {"vars"}, {"update"}}
  TNames = {"from_owned", "try_from_owned"}
INVARIANTS FoldOk Emit
CHECK_DEADLOCK FALSE
