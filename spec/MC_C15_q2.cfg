SPECIFICATION Spec
CONSTANTS
  MaxTraits = 1
  MaxTAttrs = 2
  MaxMembers = 1
  MaxVFields = 0
  VFMenu = {}
  MaxMAttrs = 1
  DTs = {"struct", "enum"}
  Shapes = {"named", "tuple"}
  TNames = {"map", "try_into"}
  Hints = {"-", "struct"}
  TMenu = {"ghosts", "where_clause", "child_parents", "parent", "literal", "type_hint", "children", "ghost", "child", "bogus"}
  MMenu = {"map", "literal"}
  FixedTraits <- NoTraits
  SpellAll = FALSE
  TCps = {"-", "A"}
  MCps = {"-", "A", "Z"}
INVARIANT Emit
CHECK_DEADLOCK FALSE
