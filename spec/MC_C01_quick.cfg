SPECIFICATION Spec
CONSTANT MaxMembers = 2
INVARIANT Emit
INVARIANT FlavoursAgree
INVARIANT NoClash
CHECK_DEADLOCK FALSE
