SPECIFICATION Spec
CONSTANTS
  Mode = "trait"
  MaxLen = 3
  RepChoices = {{}, {"vars"}}
  OwnChoices = {{}, {"vars"}}
  TNames = {"from", "map", "from_owned"}
INVARIANTS FoldOk Emit
CHECK_DEADLOCK FALSE
