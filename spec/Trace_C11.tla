----------------------------- MODULE Trace_C11 -----------------------------
(* C11 judge (header facts).  record [id, g, verdict, parse, impls: Seq([k (kind), gens: Seq([k, name, bounds, default]), self_args: Seq(STRING), self_lt, borrow_lt, where: Seq(STRING)])] *)
EXTENDS O2OGenerics, Json, IOUtils
Rec == ndJsonDeserialize(IOEnv.TRACE)
VARIABLE l
ToSetS(s) == {s[i] : i \in DOMAIN s}
\* bounds are compared as sets (a repeated bound such as 'o2o: 'x + 'x is harmless); parameters as a sequence of distinct names
NormP(s) == {[x EXCEPT !.bounds = ToSetS(@)] : x \in ToSetS(s)}
ImplSymptom(g, im) ==
  IF NormP(im.gens) # NormP(Declared(g, im.k)) \/ Len(im.gens) # Len(Declared(g, im.k)) THEN
       (IF \E x \in ToSetS(Declared(g, im.k)) : x.k = "lt" /\ ~\E y \in ToSetS(im.gens) : y.name = x.name THEN "lifetime_not_declared"
        ELSE IF \E y \in ToSetS(im.gens) : y.default # "-" THEN "default_kept_on_impl"
        ELSE IF \E y \in ToSetS(im.gens) : y.name = "'static" THEN "static_declared_as_parameter"
        ELSE "impl_parameters_differ")
  ELSE IF im.self_args # SelfArgs(g) THEN "self_type_not_in_argument_form"
  ELSE IF im.borrow_lt # BorrowLt(g, im.k) THEN "borrow_lifetime"
  ELSE IF ToSetS(im.where) # ToSetS(Where(g)) THEN "where_clause"
  ELSE "-"
Symptom(r) ==
  IF r.verdict # "ok" THEN "rejected"
  ELSE IF r.parse # "ok" THEN "header_does_not_parse"
  ELSE IF Len(r.impls) # 6 THEN "impl_count"
  ELSE IF \E i \in DOMAIN r.impls : ImplSymptom(r.g, r.impls[i]) # "-" THEN ImplSymptom(r.g, r.impls[CHOOSE i \in DOMAIN r.impls : ImplSymptom(r.g, r.impls[i]) # "-"])
  ELSE "-"
Cell(g) == [bounds |-> \E i \in DOMAIN g.ps : g.ps[i] \in {"lb", "Tb"}, defaults |-> \E i \in DOMAIN g.ps : HasDefault(g.ps[i]),
            const |-> \E i \in DOMAIN g.ps : g.ps[i] \in {"N", "Nd"}, cargs |-> g.cargs, own_non_lifetime |-> \E i \in DOMAIN g.ps : ~IsLt(g.ps[i])]
Init == l = 1
Consume == /\ l <= Len(Rec)
           /\ (IF Symptom(Rec[l]) = "-" THEN TRUE ELSE PrintT(<<"MISMATCH", ToJson([id |-> Rec[l].id, symptom |-> Symptom(Rec[l]), cell |-> Cell(Rec[l].g)])>>))
           /\ l' = l + 1
Spec == Init /\ [][Consume]_l
Accepted == TLCGet("stats").diameter - 1 = Len(Rec)
=============================================================================
