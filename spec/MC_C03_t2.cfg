SPECIFICATION Spec
CONSTANTS
  MaxMembers = 3
  MaxGhosts = 1
  AllItems = FALSE
  TNs = {FALSE}
INVARIANTS Emit NoClash
CHECK_DEADLOCK FALSE
