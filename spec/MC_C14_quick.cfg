SPECIFICATION Spec
CONSTANT MaxMembers = 3
INVARIANT FoldOk
INVARIANT Emit
CHECK_DEADLOCK FALSE
