SPECIFICATION Spec
CONSTANTS
  MaxVariants = 2
  MaxFields = 2
INVARIANT Emit
CHECK_DEADLOCK FALSE
