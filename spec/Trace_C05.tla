----------------------------- MODULE Trace_C05 -----------------------------
(* Judge for C05.  One record per instruction list:
     instrs : the list;   obs : Seq([k, f, cp, seen, same])
   `seen` is the marker syn/regex found in the impl for (k, f, cp): "m<i>" = instruction i's markers, "g<i>" = ghost i's default,
   "skip" = the member does not occur, "plain" = mapped without any instruction's markers;
   `same` = that impl is token-identical to the one generated for the list without its last instruction. *)
EXTENDS O2OLookup, TLC, Json, IOUtils
Rec == ndJsonDeserialize(IOEnv.TRACE)
VARIABLE l
Expected(instrs, k, f, cp) ==
  LET a == Applicable(instrs, k, f, cp) IN
  IF a.ghost THEN (IF IsFrom(k) THEN "g" \o ToString(a.i) ELSE "skip")
  ELSE IF a.i = 0 THEN "plain" ELSE "m" \o ToString(a.i)
ObsSymptom(instrs, o) ==
  LET n == Len(instrs) IN
  IF Expected(instrs, o.k, o.f, o.cp) # o.seen THEN "wrong_instruction_took_effect"
  ELSE IF n >= 1 /\ Applicable(instrs, o.k, o.f, o.cp).i # n /\ ~o.same THEN "inapplicable_instruction_changed_impl"
  ELSE "-"
Bad(r) == {j \in DOMAIN r.obs : ObsSymptom(r.instrs, r.obs[j]) # "-"}
Init == l = 1
Consume == /\ l <= Len(Rec)
           /\ (IF Bad(Rec[l]) = {} /\ Len(Rec[l].obs) = 24 THEN TRUE
               ELSE PrintT(<<"MISMATCH", ToJson([id |-> Rec[l].id, instrs |-> Rec[l].instrs,
                     symptom |-> IF Len(Rec[l].obs) # 24 THEN "impl_count" ELSE ObsSymptom(Rec[l].instrs, Rec[l].obs[CHOOSE j \in Bad(Rec[l]) : TRUE]),
                     bad |-> {[o |-> Rec[l].obs[j], expected |-> Expected(Rec[l].instrs, Rec[l].obs[j].k, Rec[l].obs[j].f, Rec[l].obs[j].cp)] : j \in Bad(Rec[l])}])>>))
           /\ l' = l + 1
Spec == Init /\ [][Consume]_l
Accepted == TLCGet("stats").diameter - 1 = Len(Rec)
=============================================================================
