SPECIFICATION Spec
CONSTANTS
  MaxTraits = 2
  MaxTAttrs = 1
  MaxMembers = 2
  MaxVFields = 0
  VFMenu = {}
  MaxMAttrs = 1
  DTs = {"struct"}
  Shapes = {"named"}
  TNames = {"from_owned", "owned_try_into", "map"}
  Hints = {"-"}
  TMenu = {"ghosts", "where_clause", "child_parents"}
  MMenu = {"map", "ghost_nd", "child"}
  FixedTraits <- NoTraits
  SpellAll = FALSE
  TCps = {"-", "A", "Z"}
  MCps = {"-", "A", "Z"}
INVARIANT Emit
CHECK_DEADLOCK FALSE
