----------------------------- MODULE Trace_C08 -----------------------------
(* Judge for C08's attribute parameters: where syn finds each marker attribute in the real expansion.
   record: [id, p: [n, dt, ps, tail], verdict, impls: Seq([at: Seq(pos), iat: Seq(pos), nat: Seq(pos), has_let: BOOLEAN])]
   pos \in {"impl", "fn", "inner"} *)
EXTENDS O2OSyntax, TLC, Json, IOUtils
Rec == ndJsonDeserialize(IOEnv.TRACE)
VARIABLE l
ToSetS(s) == {s[i] : i \in DOMAIN s}
Has(p, k) == k \in ToSetS(p.ps)
Want(p, k, pos) == IF Has(p, k) THEN <<pos>> ELSE <<>>
ImplOk(p, im) == /\ im.at = Want(p, "at", "fn")            \* attribute(...)       -> on the generated fn, exactly once
                 /\ im.iat = Want(p, "iat", "impl")        \* impl_attribute(...)  -> on the impl
                 /\ im.nat = Want(p, "nat", "inner")       \* inner_attribute(...) -> inside the fn body
                 /\ im.has_let = Has(p, "vars")
Symptom(r) ==
  IF r.verdict # "ok" THEN r.verdict
  ELSE IF Len(r.impls) # Cardinality(Appl(r.p.n)) THEN "impl_count"
  ELSE IF \E i \in DOMAIN r.impls : ~ImplOk(r.p, r.impls[i]) THEN "attribute_position"
  ELSE "-"
Cell(r) == [dt |-> r.p.dt, tail |-> r.p.tail, into_existing |-> Appl(r.p.n) \cap {"OIE", "RIE"} # {}]
Init == l = 1
Consume == /\ l <= Len(Rec)
           /\ (IF Symptom(Rec[l]) = "-" THEN TRUE
               ELSE PrintT(<<"MISMATCH", ToJson([id |-> Rec[l].id, symptom |-> Symptom(Rec[l]), cell |-> Cell(Rec[l]), p |-> Rec[l].p, impls |-> Rec[l].impls])>>))
           /\ l' = l + 1
Spec == Init /\ [][Consume]_l
Accepted == TLCGet("stats").diameter - 1 = Len(Rec)
=============================================================================
