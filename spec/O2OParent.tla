----------------------------- MODULE O2OParent -----------------------------
(* C03 (second half) / C07 / C08: #[parent] members.
   "A bare #[parent] field is produced from the whole counterpart when converting from it and is poured into the counterpart through
    its own into_existing conversion when converting into it"; a parameterised #[parent(...)] lists the child fields (and, nested, the
    typed sub-parents) that live flat in the counterpart.
     in == [kind |-> "bare" | "param" | "nested" | "nested3",      (nested3: the last base field lives two levels down, in base.inner.deep; the
                                                                  nested group is written first and `inner` has no direct member)
            bit  |-> Seq(Item)      items of the parent type's own fields b1.. (none | ren | expr | kexpr)   ("nested": the last one lives in base.inner)
                                    kexpr (parameterised parents): [owned_into(t<200+j>(~))] [ref_into(t<300+j>(~))] -- an ownership-specific pair and no
                                    into_existing instruction, so into_existing must fall back on the `into` instruction of ITS ownership (C05 inside #[parent])
            own  |-> Seq(Item)      items of the deriving struct's other fields s1.. (none | expr)
            ppos |-> Nat            the parent member stands before own member number ppos (Len(own) + 1 = last)
            vars |-> 0..1]
   Values as in O2OStruct: "S.<path>", "D.<leaf>", "P.<leaf>", "t<n>(x)". *)
EXTENDS O2OSyntax, TLC
N2S(i) == ToString(i)
Tag(n, x) == "t" \o N2S(n) \o "(" \o x \o ")"
NB(in) == Len(in.bit)
\* where base field j lives on the deriving side / in the counterpart
IsNested(in) == in.kind \in {"nested", "nested3"}
BPath(in, j) == IF in.kind = "nested" /\ j = NB(in) THEN "base.inner.c" \o N2S(j)
                ELSE IF in.kind = "nested3" /\ j = NB(in) THEN "base.inner.deep.c" \o N2S(j) ELSE "base.b" \o N2S(j)
BLeaf(in, j) == IF in.bit[j] = "ren" THEN "q" \o N2S(j) ELSE IF IsNested(in) /\ j = NB(in) THEN "c" \o N2S(j) ELSE "b" \o N2S(j)
OwnLeaf(j) == "s" \o N2S(j)
IsExpr(it) == it = "expr"
\* tags: own member j -> t<j>, base field j -> t<100+j>
FromExp(in) == {[leaf |-> OwnLeaf(j), val |-> IF IsExpr(in.own[j]) THEN Tag(j, "D." \o OwnLeaf(j)) ELSE "D." \o OwnLeaf(j)] : j \in DOMAIN in.own}
               \cup {[leaf |-> BPath(in, j), val |-> IF IsExpr(in.bit[j]) THEN Tag(100 + j, "D." \o BLeaf(in, j)) ELSE "D." \o BLeaf(in, j)] : j \in DOMAIN in.bit}
BVal(in, j, k) == CASE IsExpr(in.bit[j]) -> Tag(100 + j, "S." \o BPath(in, j))
                     [] in.bit[j] = "kexpr" -> Tag((IF IsRef(k) THEN 300 ELSE 200) + j, "S." \o BPath(in, j))
                     [] OTHER -> "S." \o BPath(in, j)
Written(in, k) == {[leaf |-> OwnLeaf(j), val |-> IF IsExpr(in.own[j]) THEN Tag(j, "S." \o OwnLeaf(j)) ELSE "S." \o OwnLeaf(j)] : j \in DOMAIN in.own}
                  \cup {[leaf |-> BLeaf(in, j), val |-> BVal(in, j, k)] : j \in DOMAIN in.bit}
IntoExp(in, k) == Written(in, k)
IEExp(in, k) == Written(in, k) \cup {[leaf |-> "extra", val |-> "P.extra"]}
Expected(in, k) == IF IsFrom(k) THEN FromExp(in) ELSE IF IsIE(k) THEN IEExp(in, k) ELSE IntoExp(in, k)
\* `?` sites: own members by number, the parent type's fields by 100 + number (inside the parent's own conversion for kind "bare")
Sites(in) == {j \in DOMAIN in.own : IsExpr(in.own[j])} \cup {100 + j : j \in {x \in DOMAIN in.bit : IsExpr(in.bit[x])}}
VarsPrefix(in) == [j \in 1..in.vars |-> "v" \o N2S(j)]
WellFormed(in) == /\ NB(in) >= 1 /\ in.ppos \in 1..(Len(in.own) + 1)
                  /\ (IsNested(in) => NB(in) >= 2)
                  \* inside #[parent(...)] only infallible instructions exist: the fallible twin cannot put a `?` site there
                  /\ (in.kind # "bare" => \A j \in DOMAIN in.bit : in.bit[j] # "expr")
                  \* (kexpr on a bare parent: the parent TYPE's own field carries the ownership-specific pair, so its owned and by-reference
                  \*  into_existing conversions differ and the flavour of the call the deriving struct makes on it becomes observable)
Cell(in, k, f) == [pkind |-> in.kind, kind |-> k, fallible |-> f, vars |-> in.vars, parent_first |-> in.ppos = 1]
=============================================================================
