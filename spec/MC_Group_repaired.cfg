SPECIFICATION Spec
CONSTANTS
  MaxFields = 4
  Repaired = TRUE
INVARIANTS InvOnceEach InvAllLines InvOldCompatible
CHECK_DEADLOCK FALSE
