SPECIFICATION Spec
CONSTANTS
  Mode = "variant"
  MaxLen = 3
  RepChoices = {{}, {"type_hint"}}
  OwnChoices = {{}, {"type_hint"}, {"map", "type_hint"}}
  TNames = {"x"}
INVARIANTS FoldOk Emit
CHECK_DEADLOCK FALSE
