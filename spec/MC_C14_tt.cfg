SPECIFICATION Spec
CONSTANTS
  Mode = "trait"
  MaxLen = 3
  RepChoices = {{}, {"vars"}, {"update"}, {"update", "vars"}}
  OwnChoices = {{}, {"vars"}, {"update"}, {"quick_return"}}
  TNames = {"from_owned"}
INVARIANTS FoldOk Emit
CHECK_DEADLOCK FALSE
