SPECIFICATION Spec
CONSTANTS
  MaxLen = 3
  Alphabet = {"x", "0", "D", "|", ",", ":", "..", "return", "_", "@", "~", "as", "{}", "()", "Unit", "repeat()", "vars(a: {1})", "=>", "a.b", "{1}", "[map(y)] z", "permeate()", "stop_repeat", "E"}
  Names = {"owned_into", "into", "from_owned", "from", "map_owned", "map", "owned_try_into", "try_into", "owned_into_existing", "into_existing", "try_from_owned", "try_map", "try_into_existing",
           "child", "children", "child_parents", "parent", "ghost", "ghosts", "where_clause", "literal", "pattern", "type_hint"}
  OwnOnly = {"as_type", "repeat", "skip_repeat", "stop_repeat", "allow_unknown", "ghost_owned", "ghosts_ref", "nonsense"}
  Positions = {"struct", "field", "tfield", "enum", "variant", "vfield"}
INVARIANT Emit
CHECK_DEADLOCK FALSE
