SPECIFICATION Spec
CONSTANTS
  MaxVariants = 2
  MaxFields = 2
  VMenu = {"none", "ren", "ghostd", "ghost", "hint_tuple", "hint_struct", "hint_unit"}
  FMenu = {"none", "ren", "expr", "ghostd"}
INVARIANTS Emit Symmetric
CHECK_DEADLOCK FALSE
