SPECIFICATION Spec
CONSTANTS
  MaxVariants = 2
  MaxFields = 2
  VMenu = {"none", "ren", "ghostd", "ghost", "hint_tuple", "hint_struct", "hint_unit", "hint_tuple_ded"}
  FMenu = {"none", "ren", "expr", "ghostd"}
  VGs = {0}
  EGs = {0}
  VGModes = {"both"}
INVARIANTS Emit Symmetric
CHECK_DEADLOCK FALSE
