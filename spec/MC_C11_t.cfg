SPECIFICATION Spec
CONSTANTS
  MaxParams = 4
  Params = {"la", "lb", "T", "Tb", "Td", "N", "Nd"}
  CArgs = {"none", "same", "concrete", "foreign", "foreign2", "foreign3", "static"}
  WCs = {"none", "default", "dedicated", "both"}
INVARIANTS Emit Theorems
CHECK_DEADLOCK FALSE
