SPECIFICATION Spec
CONSTANTS
  MaxBase = 2
  MaxOwn = 2
  VarsSet = {0, 1}
INVARIANTS Emit OneEach
CHECK_DEADLOCK FALSE
