----------------------------- MODULE Trace_C02 -----------------------------
EXTENDS O2OEnum, Json, IOUtils
Rec == ndJsonDeserialize(IOEnv.TRACE)
VARIABLE l
Obs(r) == [variant |-> r.variant, leaves |-> {r.leaves[i] : i \in DOMAIN r.leaves}]
Exp(r) == IF IsFrom(r.k) THEN FromExp(r.in, r.vin) ELSE IntoExp(r.in, r.vin)
Init == l = 1
Consume == /\ l <= Len(Rec)
           /\ (IF Obs(Rec[l]) = Exp(Rec[l]) THEN TRUE ELSE PrintT(<<"MISMATCH", l, Rec[l].case, Rec[l].in, Rec[l].k, Rec[l].f, Rec[l].vin, "expected", Exp(Rec[l]), "observed", Obs(Rec[l])>>))
           /\ l' = l + 1
Spec == Init /\ [][Consume]_l
Accepted == TLCGet("stats").diameter - 1 = Len(Rec)
=============================================================================
