----------------------------- MODULE Trace_C02 -----------------------------
(* Judge of run-time observations of enum conversions (real proc-macro, executed).
   record [prop, case, in, k, f, vin (index of the variant value converted), res, variant, leaves]  |  [prop = "CF", case, in, errors] *)
EXTENDS O2OEnum, Json, IOUtils
Rec == ndJsonDeserialize(IOEnv.TRACE)
VARIABLE l
Obs(r) == [variant |-> r.variant, leaves |-> {r.leaves[i] : i \in DOMAIN r.leaves}]
Exp(r) == IF r.vin > 100 THEN FromGhostExp(r.vin - 100) ELSE IF IsFrom(r.k) THEN FromExp(r.in, r.vin) ELSE IntoExp(r.in, r.vin)
C02Symptom(r) == IF r.res # "ok" THEN "unexpected_error"
                 ELSE IF Obs(r) = Exp(r) THEN "-"
                 ELSE IF Obs(r).variant # Exp(r).variant THEN "wrong_variant" ELSE "wrong_payload"
Symptom(r) == IF r.prop = "CF" THEN "does_not_compile" ELSE C02Symptom(r)
AnyTupleIdx(in) == \E i \in DOMAIN in.vs : Cell(in, i, "any").idx_member_no_action
Report(r) == IF r.prop = "CF" THEN [case |-> r.case, symptom |-> Symptom(r), cell |-> [idx_member_no_action |-> AnyTupleIdx(r.in), kind |-> "any"], errors |-> r.errors]
             ELSE [case |-> r.case, symptom |-> Symptom(r), cell |-> (IF r.vin > 100 THEN [kind |-> r.k, enum_level_ghost |-> TRUE] ELSE Cell(r.in, r.vin, r.k)), expected |-> Exp(r), observed |-> Obs(r)]
Init == l = 1
Consume == /\ l <= Len(Rec)
           /\ (IF Symptom(Rec[l]) = "-" THEN TRUE ELSE PrintT(<<"MISMATCH", ToJson(Report(Rec[l]))>>))
           /\ l' = l + 1
Spec == Init /\ [][Consume]_l
Accepted == TLCGet("stats").diameter - 1 = Len(Rec)
=============================================================================
