----------------------------- MODULE Trace_C18 -----------------------------
(* C18 / C19 judge: relations between expansions of one source text.
   C18 record [prop = "C18", a, b]: the syn 1 and the syn 2 build on byte-identical input;
   C19 record [prop = "C19", runs: Seq(run)]: repeated expansions (same process and fresh processes).
   run == [verdict, out (token string or ""), msgs (all messages in order), o2o (o2o's own messages, in order)] *)
EXTENDS Naturals, Sequences, FiniteSets, TLC, Json, IOUtils
Rec == ndJsonDeserialize(IOEnv.TRACE)
VARIABLE l
ToSetS(s) == {s[i] : i \in DOMAIN s}
\* SwapBackend: same accept/reject decision, token-identical expansions, same SET of o2o configuration diagnostics
C18Symptom(r) ==
  IF r.a.verdict # r.b.verdict THEN "verdict_differs"
  ELSE IF r.a.verdict = "ok" /\ r.a.out # r.b.out THEN "tokens_differ"
  ELSE IF r.a.verdict = "err" /\ ToSetS(r.a.o2o) # ToSetS(r.b.o2o) THEN "o2o_diagnostics_differ"
  ELSE "-"
\* Rerun: the result is a function of the input -- same verdict, same tokens, same diagnostics IN THE SAME ORDER
C19Symptom(r) ==
  IF \E i \in DOMAIN r.runs : r.runs[i].verdict # r.runs[1].verdict THEN "verdict_differs"
  ELSE IF \E i \in DOMAIN r.runs : r.runs[i].out # r.runs[1].out THEN "tokens_differ"
  ELSE IF \E i \in DOMAIN r.runs : r.runs[i].msgs # r.runs[1].msgs THEN
          (IF \A i \in DOMAIN r.runs : ToSetS(r.runs[i].msgs) = ToSetS(r.runs[1].msgs) THEN "diagnostic_order_differs" ELSE "diagnostics_differ")
  ELSE "-"
Symptom(r) == IF r.prop = "C18" THEN C18Symptom(r) ELSE C19Symptom(r)
Init == l = 1
Consume == /\ l <= Len(Rec)
           /\ (IF Symptom(Rec[l]) = "-" THEN TRUE
               ELSE PrintT(<<"MISMATCH", ToJson([id |-> Rec[l].id, symptom |-> Symptom(Rec[l])])>>))
           /\ l' = l + 1
Spec == Init /\ [][Consume]_l
Accepted == TLCGet("stats").diameter - 1 = Len(Rec)
=============================================================================
