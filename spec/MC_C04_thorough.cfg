SPECIFICATION Spec
CONSTANTS
  MaxLen = 3
  CPs = {"A", "B"}
  Errs = {"E1"}
INVARIANTS Emit ShortcutsEqualBasics OrderIndependent NoDupWhenValid CountPerInstr
CHECK_DEADLOCK FALSE
