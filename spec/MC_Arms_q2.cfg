SPECIFICATION Spec
CONSTANTS
  MaxMembers = 2
  MaxPerMember = 1
  TNs = {"try_from_ref", "owned_try_into_existing", "map"}
  TExtras = {"-", "cp_struct", "cp_generic", "ghosts_destruct"}
  TParams = {"-", "ret"}
  SMenu = {"map_name", "map_expr", "map_bare", "map_idx", "try_into_name", "ghost_d", "ghost_nd", "parent0", "parentp", "parentp_idx", "child", "as_type", "repeat", "stop_repeat", "skip_repeat", "ghosts", "literal"}
  VMenu = {"map_name", "map_expr", "map_bare", "literal", "pattern", "ghost_d", "ghost_nd", "hint_s", "hint_t", "hint_u", "ghosts", "ghosts_idx", "as_type", "child", "parent0", "repeat", "stop_repeat"}
  FMenu = {"map_name", "map_idx", "map_expr", "ghost_d", "ghost_nd", "child", "parent0", "parentp", "as_type", "repeat", "literal"}
INVARIANT Emit
CHECK_DEADLOCK FALSE
