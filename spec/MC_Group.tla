------------------------------ MODULE MC_Group ------------------------------
(* Design-level model checking of the child grouping + descent algorithm (C03, "each nested struct is built once"). *)
EXTENDS O2OFlatten
CONSTANTS MaxFields, Repaired
PathsDef == { <<>>, <<"a">>, <<"ab">>, <<"a","c">>, <<"a","c","d">>, <<"ab","e">> }
VARIABLE fields
Init == fields = <<>>
Next == \E p \in PathsDef : Len(fields) < MaxFields /\ fields' = Append(fields, p)
Spec == Init /\ [][Next]_fields
InvOnceEach == OnceEach(fields, Repaired)
InvAllLines == AllLines(fields, Repaired)
\* the repair changes nothing where the implementation is already right
InvOldCompatible == OnceEach(fields, FALSE) => Order(fields, TRUE) = Order(fields, FALSE)
=============================================================================
