SPECIFICATION Spec
CONSTANTS
  Mode = "member"
  MaxLen = 3
  RepChoices = {{}, {"child", "ghost"}, {"map"}, {"parent", "child"}}
  OwnChoices = {{}, {"child"}, {"map", "ghost"}, {"parent"}, {"map", "child"}}
  TNames = {"x"}
INVARIANTS FoldOk Emit
CHECK_DEADLOCK FALSE
