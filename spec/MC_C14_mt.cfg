SPECIFICATION Spec
CONSTANTS
  Mode = "member"
  MaxLen = 3
  RepChoices = {{}, {"child", "ghost"}, {"parent", "child"}}
  OwnChoices = {{}, {"child"}, {"map", "ghost"}, {"parent"}}
  TNames = {"x"}
INVARIANTS FoldOk Emit
CHECK_DEADLOCK FALSE
